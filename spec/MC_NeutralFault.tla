--------------------------- MODULE MC_NeutralFault ---------------------------
(* C09 on the model: every valid file of the picked instances (IOEnv.PICKS), every fault of the fault layer.   *)
(* One transition = one faulty file; it is classified by the intended reader (MustFail / MaySucceed(o')) and by *)
(* the transcription of the real reader (predicted outcome and memory-unsafe events), the first divergence      *)
(* between the two is reported, and the file is emitted for the run against the real loaders.                   *)
EXTENDS NeutralFile, Json, IOUtils, SequencesExt

Picks == ndJsonDeserialize(IOEnv.PICKS)

VARIABLES n, f
vars == <<n, f>>

Base(k) == LET p == Picks[k]  o == Instance(p.c, p.s, p.d) IN [c |-> p.c, o |-> o, L |-> FileW(p.c, o)]
\* a base file must be valid: both readers give the instance back
ValidBase(b) == LET ri == ReadF(b.c, b.L, "ideal")  rr == ReadF(b.c, b.L, "real")
                IN ri.ok /\ ri.o = b.o /\ rr.ok /\ rr.o = b.o /\ rr.ev \cap UnsafeEvents = {}

FaultCase(k, b, j, ft) ==
  LET L2 == ApplyFault(b.L, ft)
      cl == Classify(b.c, L2)
  IN [base |-> k, j |-> j, c |-> b.c, kind |-> ft.kind, k |-> ft.k, t |-> ft.t, lines |-> L2,
      verdict |-> cl.verdict, io |-> cl.io, iat |-> cl.iat, rok |-> cl.rok, rat |-> cl.rat,
      rev |-> SetToSeq(cl.rev), unsafe |-> SetToSeq(cl.unsafe), diverge |-> cl.diverge]

Init == n \in 1..Len(Picks) /\ f = 0
Next == /\ f = 0
        /\ LET b == Base(n) IN
           IF ~ValidBase(b) THEN f' = -1 /\ n' = n /\ PrintT(ToJson([base |-> n, c |-> b.c, kind |-> "invalid-base"]))
           ELSE LET fl == FaultList(b.L, b.c) IN
                \/ f' = -2 /\ n' = n /\ PrintT(ToJson([base |-> n, c |-> b.c, kind |-> "base", lines |-> b.L, o |-> b.o, nfaults |-> Len(fl)]))
                \/ \E j \in DOMAIN fl : f' = j /\ n' = n /\ PrintT(ToJson(FaultCase(n, b, j, fl[j])))
Spec == Init /\ [][Next]_vars
=============================================================================
