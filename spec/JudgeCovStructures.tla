------------------------- MODULE JudgeCovStructures -------------------------
(* Judges what the REAL gstlearn did (harness cov_run, integerised by tools/checks/c03.py) against the   *)
(* catalogue and the obligations of CovStructures:                                                      *)
(*  - offer records: a structure listed / built in a space dimension where the catalogue says it is      *)
(*    not a valid model, structures without covariance in R^d listed for R^d, unknown structures;        *)
(*  - equation and geometry records: digits of agreement reached vs required;                            *)
(*  - positive semi-definiteness records: exact symmetry and the class of the smallest eigenvalue vs     *)
(*    the obligation recomputed here from (structure, shape parameter, dimension);                       *)
(*  - admission records: a request of shape parameter is refused, or the object reports a parameter of   *)
(*    the admitted domain and is a valid model for it.                                                   *)
(* Every record is judged independently; rejections are printed as JSON lines.                           *)
EXTENDS CovStructures, Json, IOUtils, TLCExt

Obs == ndJsonDeserialize(IOEnv.OBS)
VARIABLE i

Bad(v) == CASE v.k = "offer"           -> OfferBad(v)
            [] v.k \in {"psd", "mix"}  -> PsdBad(v)
            [] v.k \in {"eq", "geo"}   -> NumBad(v)
            [] v.k = "admit"           -> AdmitBad(v)
            [] OTHER                   -> {"unknown-kind"}

Init == i = 0
Next == /\ i < Len(Obs)
        /\ i' = i + 1
        /\ LET v == Obs[i']  b == Bad(v) IN
           /\ b = {} \/ PrintT(ToJson([idx |-> i', bad |-> b]))
           /\ ~PsdConfirmsInvalid(v) \/ PrintT(ToJson([idx |-> i', confirms |-> "invalid"]))
Spec == Init /\ [][Next]_i
AllExamined == TLCGet("stats").diameter = Len(Obs) + 1 \/ PrintT(<<"NOT-ALL-EXAMINED", TLCGet("stats").diameter, Len(Obs) + 1>>)
=============================================================================
