SPECIFICATION Spec
CONSTANTS
  NDims = {1, 2, 3}
  MaxNx = 3
  DxVecs <- DxThor
  X0Vecs <- X0Thor
  AngVecs <- AngThor
  MultVecs <- MultThor
  ShiftVecs <- ShiftThor
  Kinds = {"node", "point", "multiple", "divider", "dilate", "subgrid", "migrate", "history"}
  HistoryGrid <- HistGrid
INVARIANT Inv_C16
CONSTRAINT Emit
CHECK_DEADLOCK FALSE
