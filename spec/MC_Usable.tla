----------------------------- MODULE MC_Usable -----------------------------
(* Exhaustive enumeration of the Db patterns of Usable.tla (built sample by    *)
(* sample: every state is a pattern), check of C05 on the model for every      *)
(* operation of the catalogue, and emission of every pattern with, per         *)
(* operation, the Keep list (index mapping of Expand), the expected data in    *)
(* identities and whether the transcription of the code deviates.              *)
EXTENDS Usable, Json

CONSTANTS RunOps,   \* set of operation names checked / emitted for this layout
          EmitMin   \* patterns with fewer samples are checked but not emitted

VARIABLE S
Init == S = <<>>
\* the k-th sample of a pattern has identity k
Next == /\ Len(S) < MaxN
        /\ \E s \in Status : s.id = Len(S) + 1 /\ S' = Append(S, s)
Spec == Init /\ [][Next]_S

NeedKeys == <<"", "c", "cf", "cv", "cfv", "s", "sc">>
NeedSet(k) == CASE k = "" -> {} [] k = "c" -> {"c"} [] k = "cf" -> {"c", "f"} [] k = "cv" -> {"c", "v"}
                [] k = "cfv" -> {"c", "f", "v"} [] k = "s" -> {"anyrow"} [] k = "sc" -> {"c", "anyrow"}
KeyOf(needs) == CHOOSE k \in Range(NeedKeys) : NeedSet(k) = needs

OpSeq == IdxN(Len(OpNames), LAMBDA k : OpNames[k] \in RunOps)

\* C05 on the model
ModelImplementsReduce == S = <<>> \/ \A op \in RunOps : Agrees(op, S) \/ ModelDeviation(op, S)
ReduceIsSound         == \A op \in RunOps : ReduceSound(op, S)
ReduceVarIsSound      == \A op \in RunOps \cap {"cov_req", "cov_sym_req", "drift_req", "ranks_req"} :
                            ReduceVarAgrees(op, S) \/ ModelDeviation(op, S)
\* Reduce removes nothing from a clean Db and everything from a Db without usable sample
ReduceExtremes == /\ Feat(S).clean => \A k \in DOMAIN NeedKeys : Keep(S, NeedSet(NeedKeys[k])) = [i \in DOMAIN S |-> i]
                  /\ (\A i \in DOMAIN S : ~SelOn(S[i])) => \A k \in DOMAIN NeedKeys : Keep(S, NeedSet(NeedKeys[k])) = <<>>

CaseRec ==
  [ n |-> Len(S), nvar |-> NVar, hasF |-> HasF, hasV |-> HasV,
    sel |-> [i \in DOMAIN S |-> S[i].sel],
    c |-> [i \in DOMAIN S |-> S[i].c],
    z |-> [i \in DOMAIN S |-> S[i].z],
    f |-> [i \in DOMAIN S |-> S[i].f],
    v |-> [i \in DOMAIN S |-> S[i].v],
    feat |-> Feat(S),
    keep |-> [k \in DOMAIN NeedKeys |-> Keep(S, NeedSet(NeedKeys[k]))],
    keepv |-> [k \in DOMAIN NeedKeys |-> [w \in Vars |-> KeepVar(S, NeedSet(NeedKeys[k]), w)]],
    ops |-> [k \in DOMAIN OpSeq |->
               LET op == OpNames[OpSeq[k]] IN
               [ op |-> op, nk |-> KeyOf(NeedsOf(op)), kind |-> KindOf(op), decl |-> Spec_(op, S),
                 dev |-> ~Agrees(op, S), code |-> IF Agrees(op, S) THEN <<>> ELSE OnMasked(op, S) ] ] ]

Emit == Len(S) < EmitMin \/ PrintT(ToJson(CaseRec))
=============================================================================
