--------------------------- MODULE JudgeFastPaths ---------------------------
(* Judges what the REAL library did on the configurations of FastPaths.       *)
(* Input (ndjson, IOEnv.JUDGE), one record per executed configuration:         *)
(*   id, pair, promised (as emitted by MC_FastPaths), crash (0 = none),         *)
(*   items: sequence of [name, ref, demanded, same, digits] where               *)
(*     name     observable ("estim", "stdev", "nbgh", ...),                      *)
(*     ref      which reference the fast path is compared with: "lib" (the      *)
(*              plain path of the library), "dense" (direct solve of the        *)
(*              assembled standard system), "spec" (the set / flags / index     *)
(*              lists computed by the specification),                           *)
(*     demanded the specification promises equality for this observable of      *)
(*              this configuration (side conditions, decided targets),          *)
(*     same     identical shape and identical pattern of undefined values;      *)
(*              for sets and flags: equality,                                   *)
(*     digits   floor(-log10(largest difference / largest entry)), 17 when the  *)
(*              values are identical (numbers only; 17 for sets).               *)
(* The property:  a demanded observable has the same shape / set and agrees to   *)
(* Digits decimal digits relative to the largest entry; no crash.               *)
(* Every record is judged independently; rejections are printed as JSON.        *)
EXTENDS Integers, Sequences, FiniteSets, TLC, Json, IOUtils

CONSTANT Digits          \* 10: "1e-10 relative to the largest entry"

Log == ndJsonDeserialize(IOEnv.JUDGE)
N == Len(Log)

ItemFails(it) == it.demanded /\ (~it.same \/ it.digits < Digits)
Rejections(r) ==
  (IF r.crash # 0 THEN {[name |-> "crash", ref |-> "lib", same |-> FALSE, digits |-> 0]} ELSE {})
  \cup {[name |-> r.items[k].name, ref |-> r.items[k].ref, same |-> r.items[k].same, digits |-> r.items[k].digits] :
          k \in {j \in 1..Len(r.items) : ItemFails(r.items[j])}}
Accepted(r) == ~r.promised \/ Rejections(r) = {}

VARIABLE k
Init == k = 0
Next == /\ k < N
        /\ k' = k + 1
        /\ LET r == Log[k'] IN
           Accepted(r) \/ PrintT(ToJson([id |-> r.id, pair |-> r.pair, rejected |-> Rejections(r)]))
Spec == Init /\ [][Next]_k
AllExamined == TLCGet("stats").diameter = N + 1 \/ PrintT(<<"NOT-ALL-EXAMINED", TLCGet("stats").diameter, N + 1>>)
=============================================================================
