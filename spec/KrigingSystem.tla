--------------------------- MODULE KrigingSystem ---------------------------
(***************************************************************************)
(* The STRUCTURE of the (co)kriging system of doc/references/Kriging.md      *)
(* (property C01): which equations exist for a neighbourhood, and what each   *)
(* entry of the left- and right-hand sides is, as symbolic TERMS:             *)
(*                                                                         *)
(*     [ Sigma  X ] [ lambda ]   [ Sigma0 ]                                   *)
(*     [ X^t    0 ] [  -mu   ] = [ X0^t   ]                                   *)
(*                                                                         *)
(* A configuration = number of variables, neighbourhood samples with a        *)
(* definedness flag per (sample, variable), drift specification, measurement- *)
(* error variances, target kind.  Terms (bound to numbers by the harness with *)
(* point-wise public functions only):                                         *)
(*   <<1, v1, v2, s1, s2>>  C_{v1 v2}(x_s1 - x_s2)                            *)
(*   <<2, v,  v,  s,  s >>  C_{vv}(0) + Verr(s, v)                             *)
(*   <<3, l,  s,  0,  0 >>  f_l(x_s)      drift function l at sample s        *)
(*   <<4, v,  v0, s,  0 >>  C_{v v0}(x_s - target)  (block: mean over the     *)
(*                           discretisation points OF THE TARGET BLOCK: the     *)
(*                           mesh of the grid, or the extension carried by the  *)
(*                           target cell itself when the support is defined     *)
(*                           per cell - krigcell / flagPerCell; the block       *)
(*                           variance C_vv is then the one of that very cell)   *)
(*   <<5, l,  0,  0,  0 >>  f_l(target)                                       *)
(*   <<0, 0,  0,  0,  0 >>  zero                                              *)
(*                                                                         *)
(* Definition : the system written directly from the document, over the      *)
(*              equations of the defined (sample, variable) pairs             *)
(*              (variable-major) followed by the drift equations              *)
(*              (variable-major, one block of drift functions per variable).  *)
(* Algorithm  : transcription of KrigingSystem.cpp: the full isotopic system  *)
(*              (_lhsCalcul / _rhsCalcul), the flags of _flagDefine, the       *)
(*              compression of _lhsIsoToHetero / _rhsIsoToHetero.             *)
(* TLC checks Algorithm = Definition for every configuration, symmetry of the *)
(* left-hand side and the equation count, and emits every configuration with *)
(* its symbolic system: the conformance harness evaluates the terms, checks   *)
(* the lhs / rhs / weights / estimate / standard deviation / variance of the  *)
(* estimator returned by the real krigtest() and kriging() against it.        *)
(***************************************************************************)
EXTENDS Integers, Sequences, FiniteSets, TLC, Json

CONSTANTS MaxNvar, MaxNs, Drifts, WithVerr, Targets,
          Ndims,       \* space dimensions explored (subset of 1..3)
          BigNs        \* larger neighbourhoods, explored with every value defined only (needed by high-order drifts)

\* drift functions per variable: monomials (powers of the coordinates, in the order of
\* DriftFactory::createDriftListFromIRF) and external drift
Mono(a, b, c) == [kind |-> "mono", p |-> <<a, b, c>>]
Funcs(d, nd) ==
  CASE d = "SK"  -> <<>>
    [] d = "OK"  -> <<Mono(0, 0, 0)>>
    [] d = "EXT" -> <<Mono(0, 0, 0), [kind |-> "ext", p |-> <<0, 0, 0>>]>>
    [] d = "LIN" -> (<<Mono(0, 0, 0), Mono(1, 0, 0)>> \o (IF nd >= 2 THEN <<Mono(0, 1, 0)>> ELSE <<>>)
                                                     \o (IF nd >= 3 THEN <<Mono(0, 0, 1)>> ELSE <<>>))
    [] d = "QUAD" -> (<<Mono(0, 0, 0), Mono(1, 0, 0), Mono(2, 0, 0)>>
                      \o (IF nd >= 2 THEN <<Mono(0, 1, 0), Mono(1, 1, 0), Mono(0, 2, 0)>> ELSE <<>>))
NBflD(d, nd) == Len(Funcs(d, nd))

Zero == <<0, 0, 0, 0, 0>>

VARIABLES cfg, built
vars == <<cfg, built>>

BoolSeqs(n) == [1..n -> BOOLEAN]
MaxS == IF BigNs = {} THEN MaxNs ELSE CHOOSE m \in BigNs \cup {MaxNs} : \A x \in BigNs \cup {MaxNs} : x <= m
NoneDef == [v \in 1..MaxNvar |-> FALSE]
Configs == { [nvar |-> nv, ns |-> ns, def |-> [s \in 1..MaxS |-> IF s <= MaxNs THEN d0[s] ELSE NoneDef],
              drift |-> d, verr |-> ve, target |-> tg, ndim |-> nd] :
               nv \in 1..MaxNvar, ns \in 1..MaxNs, d \in Drifts, ve \in WithVerr, tg \in Targets, nd \in Ndims,
               d0 \in [1..MaxNs -> [1..MaxNvar -> BOOLEAN]] }
           \cup
           { [nvar |-> nv, ns |-> ns, def |-> [s \in 1..MaxS |-> [v \in 1..MaxNvar |-> s <= ns /\ v <= nv]],
              drift |-> d, verr |-> ve, target |-> tg, ndim |-> nd] :
               nv \in 1..MaxNvar, ns \in BigNs, d \in Drifts, ve \in WithVerr, tg \in Targets, nd \in Ndims }
\* canonical: flags beyond ns / nvar are FALSE; every variable has at least one defined sample;
\* every sample has at least one defined variable (a fully undefined sample is not in the neighbourhood)
Canonical(c) ==
  /\ \A s \in 1..MaxS, v \in 1..MaxNvar : (s > c.ns \/ v > c.nvar) => ~c.def[s][v]
  /\ (c.drift = "QUAD" => c.ndim <= 2)
  /\ \A v \in 1..c.nvar : \E s \in 1..c.ns : c.def[s][v]
  /\ \A s \in 1..c.ns : \E v \in 1..c.nvar : c.def[s][v]

-----------------------------------------------------------------------------
(* Definition                                                                *)
DataEqs(c) == LET F[k \in 0..(c.nvar * c.ns)] ==
                    IF k = 0 THEN <<>>
                    ELSE LET v == ((k - 1) \div c.ns) + 1
                             s == ((k - 1) % c.ns) + 1
                         IN IF c.def[s][v] THEN Append(F[k-1], [k |-> "d", s |-> s, v |-> v, l |-> 0]) ELSE F[k-1]
              IN F[c.nvar * c.ns]
DriftEqs(c) == LET nb == NBflD(c.drift, c.ndim) IN
               [k \in 1..(c.nvar * nb) |-> [k |-> "f", s |-> 0, v |-> ((k - 1) \div nb) + 1, l |-> ((k - 1) % nb) + 1]]
Eqs(c) == DataEqs(c) \o DriftEqs(c)

LhsTerm(c, e1, e2) ==
  IF e1.k = "d" /\ e2.k = "d"
  THEN IF e1.s = e2.s /\ e1.v = e2.v /\ c.verr THEN <<2, e1.v, e1.v, e1.s, e1.s>>
       ELSE <<1, e1.v, e2.v, e1.s, e2.s>>
  ELSE IF e1.k = "d" /\ e2.k = "f" THEN (IF e1.v = e2.v THEN <<3, e2.l, e1.s, 0, 0>> ELSE Zero)
  ELSE IF e1.k = "f" /\ e2.k = "d" THEN (IF e1.v = e2.v THEN <<3, e1.l, e2.s, 0, 0>> ELSE Zero)
  ELSE Zero
RhsTerm(c, e, v0) ==
  IF e.k = "d" THEN <<4, e.v, v0, e.s, 0>>
  ELSE IF e.v = v0 THEN <<5, e.l, 0, 0, 0>> ELSE Zero

DefSystem(c) == LET eqs == Eqs(c) n == Len(eqs) IN
  [eqs |-> eqs,
   lhs |-> [i \in 1..n |-> [j \in 1..n |-> LhsTerm(c, eqs[i], eqs[j])]],
   rhs |-> [i \in 1..n |-> [v0 \in 1..c.nvar |-> RhsTerm(c, eqs[i], v0)]]]

-----------------------------------------------------------------------------
(* Algorithm (transcription)                                                  *)
\* full isotopic system: index (iech, ivar) -> ivar * nech + iech, drift equation ib -> nvar * nech + ib
NeqFull(c) == c.nvar * c.ns + c.nvar * NBflD(c.drift, c.ndim)
FullEq(c, i) == IF i <= c.nvar * c.ns
                THEN [k |-> "d", s |-> ((i - 1) % c.ns) + 1, v |-> ((i - 1) \div c.ns) + 1, l |-> 0]
                ELSE LET ib == i - c.nvar * c.ns  nb == NBflD(c.drift, c.ndim) IN
                     [k |-> "f", s |-> 0, v |-> ((ib - 1) \div nb) + 1, l |-> ((ib - 1) % nb) + 1]
\* _lhsCalcul: covariance part for every pair of (sample, variable), verr on the diagonal terms;
\* drift part evalDriftValue(sample, ivar, ib) = f_l(sample) when the equation belongs to ivar
FullLhs(c, i, j) == LhsTerm(c, FullEq(c, i), FullEq(c, j))
FullRhs(c, i, v0) == RhsTerm(c, FullEq(c, i), v0)
\* _flagDefine: a data equation is kept when the value is defined; a drift equation is dropped
\* only when no variable at all is defined in the neighbourhood (never, for canonical configurations)
Flag(c, i) == IF i <= c.nvar * c.ns THEN LET e == FullEq(c, i) IN c.def[e.s][e.v] ELSE TRUE
Kept(c) == LET F[i \in 0..NeqFull(c)] == IF i = 0 THEN <<>> ELSE IF Flag(c, i) THEN Append(F[i-1], i) ELSE F[i-1]
           IN F[NeqFull(c)]
AlgSystem(c) == LET kept == Kept(c) n == Len(kept) IN
  [eqs |-> [i \in 1..n |-> FullEq(c, kept[i])],
   lhs |-> [i \in 1..n |-> [j \in 1..n |-> FullLhs(c, kept[i], kept[j])]],
   rhs |-> [i \in 1..n |-> [v0 \in 1..c.nvar |-> FullRhs(c, kept[i], v0)]]]

-----------------------------------------------------------------------------
Init == cfg \in {c \in Configs : Canonical(c)} /\ built = FALSE
Build == ~built /\ built' = TRUE /\ UNCHANGED cfg
Spec == Init /\ [][Build]_vars

AlgEqualsDef == AlgSystem(cfg) = DefSystem(cfg)
Symmetric == LET s == DefSystem(cfg) n == Len(s.eqs) IN
             \A i, j \in 1..n : LET a == s.lhs[i][j] b == s.lhs[j][i] IN
                a[1] = b[1] /\ (a[1] = 1 => (a[2] = b[3] /\ a[3] = b[2] /\ a[4] = b[5] /\ a[5] = b[4]))
                            /\ (a[1] \in {2, 3} => a = b)
Count == Len(Eqs(cfg)) = Cardinality({<<s, v>> \in (1..cfg.ns) \X (1..cfg.nvar) : cfg.def[s][v]}) + cfg.nvar * NBflD(cfg.drift, cfg.ndim)
\* unknown mean: the universality rows make the weights of each variable reproduce each drift function
HasUniversality == cfg.drift = "SK" \/ \A v \in 1..cfg.nvar : \E i \in 1..Len(Eqs(cfg)) : Eqs(cfg)[i].k = "f" /\ Eqs(cfg)[i].v = v

-----------------------------------------------------------------------------
(* Laws of the specified system used by C02 (relations induced by input      *)
(* transformations); TLC checks them on the symbolic system of every           *)
(* configuration.                                                             *)

\* Relabelling: reversing the order of the samples permutes equations and terms consistently
Rev(c) == [c EXCEPT !.def = [s \in 1..MaxS |-> IF s <= c.ns THEN c.def[c.ns + 1 - s] ELSE c.def[s]]]
RelabelS(c, s) == IF s = 0 THEN 0 ELSE c.ns + 1 - s
RelabelTerm(c, t) == CASE t[1] \in {1, 2} -> <<t[1], t[2], t[3], RelabelS(c, t[4]), RelabelS(c, t[5])>>
                       [] t[1] = 3 -> <<3, t[2], RelabelS(c, t[3]), 0, 0>>
                       [] t[1] = 4 -> <<4, t[2], t[3], RelabelS(c, t[4]), 0>>
                       [] OTHER -> t
\* every equation of the relabelled configuration is the relabelled image of an equation of the
\* original one, with the same entries: the SET of equations (hence the solution) is unchanged
PermuteLaw ==
  LET a == DefSystem(cfg)  b == DefSystem(Rev(cfg))  n == Len(a.eqs) IN
  /\ Len(b.eqs) = n
  /\ \A i \in 1..n : \E i2 \in 1..n :
        /\ b.eqs[i2] = [a.eqs[i] EXCEPT !.s = RelabelS(cfg, a.eqs[i].s)]
        /\ \A v0 \in 1..cfg.nvar : b.rhs[i2][v0] = RelabelTerm(cfg, a.rhs[i][v0])
        /\ \A j \in 1..n : \E j2 \in 1..n :
              /\ b.eqs[j2] = [a.eqs[j] EXCEPT !.s = RelabelS(cfg, a.eqs[j].s)]
              /\ b.lhs[i2][j2] = RelabelTerm(cfg, a.lhs[i][j])

\* Exactness: when the target is the location of datum (s0, v0) and there is no measurement error,
\* the right-hand side for v0 is the column of the left-hand side of that datum (so the unit weight
\* vector solves the system: estimate = datum, estimation variance = C00 - C00 = 0)
OnDatum(t, s0) == CASE t[1] = 4 -> <<1, t[2], t[3], t[4], s0>>      \* C(x_s - x_s0)
                    [] t[1] = 5 -> <<3, t[2], s0, 0, 0>>            \* f_l(x_s0)
                    [] OTHER -> t
ExactLaw ==
  cfg.verr \/ cfg.target # "point" \/
  LET a == DefSystem(cfg)  n == Len(a.eqs) IN
  \A j \in 1..n : a.eqs[j].k = "d" =>
     \A i \in 1..n : OnDatum(a.rhs[i][a.eqs[j].v], a.eqs[j].s) = a.lhs[i][j]

\* Unbiasedness / drift reproduction: for each variable v0 and each drift function l there is a row
\* whose entries are f_l at the data of v0 (zero elsewhere) and whose right-hand side is f_l(target)
\* for v0 and zero for the other variables:  sum_i lambda_i f_l(x_i) = f_l(target)
UniversalityLaw ==
  LET a == DefSystem(cfg)  n == Len(a.eqs) IN
  \A v0 \in 1..cfg.nvar : \A l \in 1..NBflD(cfg.drift, cfg.ndim) : \E i \in 1..n :
     /\ a.eqs[i].k = "f" /\ a.eqs[i].v = v0 /\ a.eqs[i].l = l
     /\ a.rhs[i][v0] = <<5, l, 0, 0, 0>>
     /\ \A w \in (1..cfg.nvar) \ {v0} : a.rhs[i][w] = Zero
     /\ \A j \in 1..n : a.lhs[i][j] = (IF a.eqs[j].k = "d" /\ a.eqs[j].v = v0 THEN <<3, l, a.eqs[j].s, 0, 0>> ELSE Zero)

Emit == ~built \/ PrintT(ToJson([cfg |-> [nvar |-> cfg.nvar, ns |-> cfg.ns,
                                          def |-> [s \in 1..cfg.ns |-> [v \in 1..cfg.nvar |-> cfg.def[s][v]]],
                                          drift |-> cfg.drift, verr |-> cfg.verr, target |-> cfg.target, ndim |-> cfg.ndim,
                                          funcs |-> Funcs(cfg.drift, cfg.ndim)],
                                  sys |-> DefSystem(cfg)]))
=============================================================================
