---------------------------- MODULE MC_MatrixAlg ----------------------------
(***************************************************************************)
(* Exhaustive exploration of the register machine of MatrixAlg: every      *)
(* operation of the catalogue in every state reached from the initial      *)
(* families by at most MaxLen operations.                                  *)
(*  - the invariants are algebraic identities which guard the operators of *)
(*    the specification itself;                                            *)
(*  - every state is emitted (JSON) with the history of operations that    *)
(*    leads to it, the expected registers, the storage classes in which    *)
(*    the last step is promised and the observers of the accumulator: the  *)
(*    harness replays the histories into the real matrix classes.          *)
(***************************************************************************)
EXTENDS MatrixAlgFam, Json, SequencesExt

CONSTANTS MaxLen,        \* maximal number of operations in a behaviour
          InitLevel,     \* "full" | "reduced" | "tiny"
          Emit           \* TRUE: print every state as JSON

VARIABLES st,            \* registers [A, B, v]
          hist,          \* operations applied so far
          ap,            \* TRUE once a division-like operation occurred (values compared with a tolerance)
          pf,            \* storage classes in which the last step is promised
          id0            \* rank of the initial state (keeps the histories of different initial states apart)
vars == <<st, hist, ap, pf, id0>>

Inits == InitStates(InitLevel)
InitSeq == SetToSeq(Inits)

AllProfiles(s) == {"rect", "spe", "spc"} \cup (IF AllSquare(s) THEN {"sqg"} ELSE {}) \cup (IF AllSym(s) THEN {"sym"} ELSE {})

Init == /\ id0 \in 1..Len(InitSeq)
        /\ st = InitSeq[id0]
        /\ hist = <<>>
        /\ ap = FALSE
        /\ pf = AllProfiles(st)
Next == /\ Len(hist) < MaxLen
        /\ \E o \in RawCatalogue(st) :
             /\ (IF OpsLevel \in {"all", "std"} THEN TRUE ELSE o.op \in CoreOps)
             /\ (IF ShapeOK(o, st) /\ PreOK(o, st) THEN TRUE ELSE FALSE)
             /\ LET post == Do(o, st) IN
                  /\ Magnitude(post) <= Limit
                  /\ (IF o.op = "Glue" THEN R(post.A) <= 4 /\ C(post.A) <= 4 ELSE TRUE)
                  /\ st' = post
                  /\ hist' = Append(hist, o)
                  /\ ap' = (ap \/ Inexact(o))
                  /\ pf' = (pf \cap Profiles(o, st, post))
        /\ UNCHANGED id0
Spec == Init /\ [][Next]_vars

-----------------------------------------------------------------------------
(* Observers of the accumulator, defined for integer contents               *)
Obs(q) == IF q.d # 1 THEN [def |-> FALSE]
          ELSE [def |-> TRUE, min |-> MinOf(Entries(q.m)), max |-> MaxOf(Entries(q.m)),
                ninf |-> MaxOf({Abs(e) : e \in Entries(q.m)}),
                sq |-> IsSquare(q.m), sym |-> IsSym(q.m), ident |-> IsIdentity(q.m),
                tr |-> IF IsSquare(q.m) THEN Trace(q.m) ELSE 0,
                hasdet |-> IsSquare(q.m) /\ NR(q.m) <= 3 /\ MaxM(q) <= 250,
                det |-> IF IsSquare(q.m) /\ NR(q.m) <= 3 /\ MaxM(q) <= 250 THEN Det(q.m) ELSE 0,
                nonneg |-> \A e \in Entries(q.m) : e >= 0]

SetToSeqSorted(S) == LET names == <<"rect", "sqg", "sym", "spe", "spc">>
                     IN SelectSeq(names, LAMBDA n : n \in S)
LastOp == IF hist = <<>> THEN O0("init") ELSE hist[Len(hist)]
Record == [id |-> id0, h |-> hist, A |-> st.A, B |-> st.B, v |-> st.v, ap |-> ap, pf |-> SetToSeqSorted(pf),
           mr |-> SetToSeqSorted({p \in pf : hist # <<>> /\ MayRefuse(LastOp, p)}),
           kj |-> IF hist = <<>> THEN -1 ELSE KronPowJ(LastOp), ki |-> IF hist = <<>> THEN -1 ELSE KronPowI(LastOp),
           obs |-> Obs(st.A)]
EmitState == (~Emit) \/ PrintT(ToJson(Record))

-----------------------------------------------------------------------------
(* Identities which guard the specification (evaluated in every state)      *)
a == st.A.m
b == st.B.m
x == st.v.x
Small(k) == MaxM(st.A) <= k /\ MaxM(st.B) <= k /\ MaxV(st.v) <= k     \* keeps the identities within 32 bits
Inv_TransposeInvolution == Tr(Tr(a)) = a /\ Tr(Tr(b)) = b
Inv_ProductTranspose ==
  /\ NC(a) = NR(b) => Tr(MatMul(a, b)) = MatMul(Tr(b), Tr(a))
  /\ NC(a) = NC(b) => Tr(MatMul(a, Tr(b))) = MatMul(b, Tr(a))
Inv_IdentityNeutral == MatMul(a, Ident(NC(a))) = a /\ MatMul(Ident(NR(a)), a) = a
Inv_MatVecIsProduct ==
  /\ Len(x) = NC(a) => MatMul(a, Tr(<<x>>)) = Tr(<<MatVec(a, x)>>)
  /\ Len(x) = NR(a) => MatMul(<<x>>, a) = <<VecMat(x, a)>> /\ VecMat(x, a) = MatVec(Tr(a), x)
Inv_Associative ==
  (Small(300) /\ NC(a) = NR(b) /\ Len(x) = NC(b)) => MatVec(MatMul(a, b), x) = MatVec(a, MatVec(b, x))
Inv_Congruence == Small(300) =>
  ( /\ ((IsSquare(b) /\ NC(a) = NR(b)) => ( /\ NormMM(a, b, FALSE) = MatMul(a, MatMul(b, Tr(a)))
                                             /\ (IsSym(b) => IsSym(NormMM(a, b, FALSE))) ))
    /\ ((IsSquare(b) /\ NR(a) = NR(b)) => (NormMM(a, b, TRUE) = Tr(NormMM(a, Tr(b), TRUE))))
    /\ NormM(a, TRUE) = NormMM(a, Ident(NR(a)), TRUE) /\ NormM(a, FALSE) = NormMM(a, Ident(NC(a)), FALSE)
    /\ (Len(x) = NC(a) => (NormMV(a, x, FALSE) = MatMul(ColScale(a, x), Tr(a))))
    /\ (Len(x) = NR(a) => (NormMV(a, x, TRUE) = MatMul(Tr(a), RowScale(a, x)))) )
Inv_Scaling ==
  /\ Len(x) = NR(a) => RowScale(a, x) = MatMul(Diag(x), a)
  /\ Len(x) = NC(a) => ColScale(a, x) = MatMul(a, Diag(x))
Inv_Sampling ==
  /\ Pick(a, <<>>, <<>>) = a
  /\ \A p \in PickArgs(NR(a), NC(a)) : Pick(Tr(a), p[2], p[1]) = Tr(Pick(a, p[1], p[2]))
  /\ Pick(a, Compl(NR(a), <<>>), <<>>) = a
Inv_Inverse ==
  (IsSquare(a) /\ NR(a) <= 3 /\ Small(250)) =>
     ( /\ MatMul(a, Adj(a)) = Scal(Ident(NR(a)), Det(a))
       /\ MatMul(Adj(a), a) = Scal(Ident(NR(a)), Det(a))
       /\ Det(Tr(a)) = Det(a)
       /\ ((IsSquare(b) /\ NR(b) = NR(a) /\ Small(12)) => (Det(MatMul(a, b)) = Det(a) * Det(b))) )
Inv_Rational == st.A.d >= 1 /\ st.B.d >= 1 /\ st.v.d >= 1
\* linear solve: the emitted solution satisfies the system
SolveLaw == [][ (hist' # hist /\ hist'[Len(hist')].op = "Solve") =>
                   VScal(MatVec(st.A.m, st'.v.x), st.v.d) = VScal(st.v.x, st'.v.d * st.A.d) ]_vars
InvertLaw == [][ (hist' # hist /\ hist'[Len(hist')].op = "Invert") =>
                   MatMul(st.A.m, st'.A.m) = Scal(Ident(R(st.A)), st.A.d * st'.A.d) ]_vars
\* Kronecker inflation laws (n = 2), checked on every transition whose operation claims one
J2 == Const(2, 2, 1)
\* (the determinant of A (x) I_2 is det(A)^2: the law is evaluated for inversion / solve on small entries only, and
\*  for the products on operands whose doubled sums stay within 32 bits)
KronFits(o) == IF o.op \in {"Invert", "Solve"} THEN MaxM(st.A) <= 12 /\ MaxV(st.v) <= 12
               ELSE IF o.op \in {"ProdNormMatMat", "ProdNormMatVec", "ProdNormMat"}
                    THEN MaxM(st.A) <= 250 /\ MaxM(st.B) <= 250 /\ MaxV(st.v) <= 250
               ELSE MaxM(st.A) <= 5000 /\ MaxM(st.B) <= 5000 /\ MaxV(st.v) <= 5000
KronLaw == [][ hist' # hist =>
                 LET o == hist'[Len(hist')] IN
                   KronFits(o) =>
                     /\ (KronPowJ(o) >= 0 => KronLawHolds(o, st, J2, KronPowJ(o)))
                     /\ (KronPowI(o) >= 0 => KronLawHolds(o, st, Ident(2), 0)) ]_vars
=============================================================================
