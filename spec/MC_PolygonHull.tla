--------------------------- MODULE MC_PolygonHull ---------------------------
(* Selections by convex hull: every set of 3..MaxPts points of the G x G lattice that is not       *)
(* contained in a line.  For each set TLC                                                          *)
(*  - builds the hull polygon by the monotone chain and checks that it is THE hull (simple,        *)
(*    strictly convex, counter-clockwise, vertices in the set, no point of the set outside),        *)
(*  - checks that the decision taken on that polygon (geometric truth RefInside, and the            *)
(*    transcription of PolyElem::inside) equals the declarative half-plane definition of the hull    *)
(*    for every query point of the half-lattice,                                                     *)
(*  - emits the case: the point set, the expected decision per query point (0 outside, 1 inside,    *)
(*    2 on the hull boundary = excluded) and the marks expected from db_selhull /                    *)
(*    Db::addSelectionFromDbByConvexHull on target data bases made of the query points, without      *)
(*    and with a previous selection (scattered, leading, trailing mask).  The source data base is    *)
(*    either the set itself, or the whole lattice with the set as its active samples.               *)
EXTENDS Polygon, Json

CONSTANTS G, MaxPts, MinPts

VARIABLE s

NL == G * G
LatSeq == TLCEval([i \in 1..NL |-> <<2 * ((i - 1) \div G), 2 * ((i - 1) % G)>>])
Lattice == {LatSeq[i] : i \in 1..NL}
LexLess(a, b) == a[1] < b[1] \/ (a[1] = b[1] /\ a[2] < b[2])

NC == 2 * G + 1
QCoord(i) == IF i = 1 THEN -2 ELSE IF i = NC THEN 2 * G ELSE i - 2
NQ == NC * NC
QSeq == TLCEval([i \in 1..NQ |-> <<QCoord(((i - 1) \div NC) + 1), QCoord(((i - 1) % NC) + 1)>>])

\* previous selections of the target data base (TRUE = active)
NMask == NQ \div 4
MaskNames == <<"scattered", "leading", "trailing">>
MaskActive(m, i) == IF m = "scattered" THEN PrevActive(i)
                    ELSE IF m = "leading" THEN i > NMask
                    ELSE i <= NQ - NMask

Init == /\ s = {}
        /\ PrintT(ToJson([k |-> "meta", G |-> G, q |-> QSeq, lat |-> LatSeq, noz |-> NoZ,
                          masks |-> [m \in 1..Len(MaskNames) |->
                                       [name |-> MaskNames[m],
                                        active |-> [i \in 1..NQ |-> IF MaskActive(MaskNames[m], i) THEN 1 ELSE 0]]]]))
AddPoint(v) == /\ Cardinality(s) < MaxPts
               /\ \A a \in s : LexLess(a, v)
               /\ s' = s \cup {v}
Next == \E v \in Lattice : AddPoint(v)
Spec == Init /\ [][Next]_s

Inv_Hull ==
  (Cardinality(s) >= 3 /\ NonDegenerate(s)) =>
    LET h == TLCEval(HullChain(s))
        sp == SupportPairs(s)
        e == TLCEval([i \in 1..NQ |-> HullCodeSP(sp, QSeq[i])])
    IN /\ IsHullOf(h, s)
       /\ \A i \in 1..NQ : PolyCode(h, QSeq[i]) = e[i]
       /\ \A i \in 1..NQ : e[i] = 2 \/ (ElemInside(h, QSeq[i]) = (e[i] = 1))
       /\ \/ Cardinality(s) < MinPts
          \/ PrintT(ToJson([k |-> "hull", src |-> SortPts(s),
                            srcsel |-> [i \in 1..NL |-> IF LatSeq[i] \in s THEN 1 ELSE 0],
                            hull |-> h, exp |-> e,
                            sel |-> [m \in 1..Len(MaskNames) |->
                                       [i \in 1..NQ |-> DbHullMark(MaskActive(MaskNames[m], i), e[i])]],
                            nv |-> Len(h),
                            onedge |-> Cardinality({c \in s : OnBoundary(h, c) /\ \A i \in 1..Len(h) : h[i] # c}),
                            interior |-> Cardinality({c \in s : ~OnBoundary(h, c)})]))
=============================================================================
