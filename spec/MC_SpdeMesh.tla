---------------------------- MODULE MC_SpdeMesh ----------------------------
(* Exhaustive enumeration of the cases of SpdeMesh within the constants of a tier: one initial    *)
(* state per geometry and per mesh, one successor per (mesh, lattice point).  INVARIANT Inv_C15    *)
(* evaluates the projection clause of C15 on every case of the model; CONSTRAINT Emit prints every *)
(* case (input + expected row) as JSON for the harness spde_run (the state graph is a forest:      *)
(* each state is generated once).                                                                  *)
EXTENDS SpdeMesh, Json

VARIABLE cs
Init == cs \in { GeomCase(g) : g \in Geoms } \cup { MeshCase(m) : m \in Meshes }
Next == cs.k = "mesh" /\ cs' \in CasesOf(cs.m)
Spec == Init /\ [][Next]_cs

Inv_C15 == CaseOk(cs)
Emit == PrintT(ToJson(OutCase(cs)))

-----------------------------------------------------------------------------
(* Constants of the tiers                                                   *)

AllFamilies == {"turbo", "turbopol", "turbomask", "std_same", "std_alt", "std_alt2", "std_pert"}

NxUpTo(nd, lo, hi) == { AsTup(nd, f) : f \in [1..nd -> lo..hi] }
NxQuick(nd) == NxUpTo(nd, 2, 3)
NxThor(nd)  == NxUpTo(nd, 2, IF nd = 1 THEN 6 ELSE IF nd = 2 THEN 5 ELSE 4)

\* mesh sizes are multiples of 5/4 so that the coordinates rotated by the 3-4-5 angle are exact in doubles
G(ang, dxn, dxd, x0) == [ang |-> ang, dxn |-> dxn, dxd |-> dxd, x0 |-> x0]
GeomsQuick(nd) ==
  IF nd = 1 THEN { G(<<0>>, <<1>>, 1, <<0>>), G(<<0>>, <<5>>, 2, <<-7>>) }
  ELSE IF nd = 2 THEN { G(<<0, 0>>, <<1, 1>>, 1, <<0, 0>>), G(<<0, 0>>, <<10, 5>>, 4, <<10, -20>>),
                        G(<<1, 0>>, <<10, 5>>, 4, <<10, -20>>), G(<<4, 0>>, <<10, 5>>, 4, <<10, -20>>) }
  ELSE { G(<<0, 0, 0>>, <<5, 10, 5>>, 4, <<10, -20, 5>>), G(<<1, 0, 0>>, <<5, 10, 5>>, 4, <<10, -20, 5>>),
         G(<<4, 0, 0>>, <<5, 10, 5>>, 4, <<10, -20, 5>>), G(<<0, 0, 4>>, <<5, 10, 5>>, 4, <<10, -20, 5>>) }
GeomsThor(nd) ==
  GeomsQuick(nd) \cup
  (IF nd = 1 THEN {}
   ELSE IF nd = 2 THEN { G(<<2, 0>>, <<5, 15>>, 4, <<-3, 4>>), G(<<3, 0>>, <<5, 15>>, 4, <<-3, 4>>),
                         G(<<5, 0>>, <<5, 15>>, 4, <<-3, 4>>), G(<<6, 0>>, <<15, 5>>, 2, <<-3, 4>>),
                         G(<<7, 0>>, <<15, 5>>, 2, <<-3, 4>>) }
   ELSE { G(<<0, 4, 0>>, <<5, 10, 5>>, 4, <<10, -20, 5>>), G(<<0, 1, 0>>, <<5, 10, 15>>, 4, <<10, -20, 5>>),
          G(<<3, 1, 2>>, <<5, 10, 15>>, 4, <<-7, 4, -3>>), G(<<4, 0, 4>>, <<25, 50, 75>>, 4, <<10, -20, 5>>),
          G(<<5, 1, 6>>, <<25, 50, 25>>, 4, <<-7, 4, -3>>) })
=============================================================================
