------------------------------ MODULE VarioPairs ------------------------------
(***************************************************************************)
(* Property C12: experimental variograms equal their pairwise definition.  *)
(*                                                                         *)
(* A DATA SET is a sequence of samples                                     *)
(*    [p : Seq(Int)   lattice position (length = space dimension),         *)
(*     z : Seq(Int)   one value per variable, NA = undefined,              *)
(*     s : 0..1       selection (1 = active),                              *)
(*     w : Nat ]      weight (1 when the data set has no weight column)    *)
(* A DIRECTION is a record                                                 *)
(*    [npas   number of lags,                                              *)
(*     p2     SQUARE of the lag step dpas (an integer: dpas = sqrt(p2)),   *)
(*     tn,td  lag tolerance toldis = tn/td (td a power of two),            *)
(*     cod    integer direction vector,                                    *)
(*     tolang angular tolerance in degrees, one of 0, 30, 45, 60, 90,      *)
(*     bn,bd  bench height bn/bd (bn = 0: none),                           *)
(*     cn,cd  cylinder radius cn/cd (cn = 0: none) ]                       *)
(*                                                                         *)
(* Everything is decided by exact integer comparisons of squared           *)
(* quantities.  CONVENTIONS (DirParam.hpp documents: "the distance must    *)
(* correspond to a multiple of the lag up to a tolerance expressed as a    *)
(* percentage of the lag; the rank of this multiple must be smaller than   *)
(* the number of lags"; where the documentation is silent the code is the  *)
(* reference, DirParam::getLagRank):                                       *)
(*   - lag k (0 <= k < npas) is centred on k*dpas with half-width          *)
(*     toldis*dpas, CLOSED at both ends: |d - k*dpas| <= toldis*dpas;      *)
(*   - a separation is first attached to the NEAREST multiple              *)
(*     k = floor(d/dpas + 1/2) (the tie d = (k+1/2)*dpas goes to k+1) and  *)
(*     only then tested against the tolerance, so that a pair is counted   *)
(*     in at most one lag;                                                 *)
(*   - a pair at zero distance is accepted in every direction (lag 0);     *)
(*   - angular tolerance: |cos(pair, cod)| >= cos(tolang);                  *)
(*     cylinder: distance to the axis <= cylrad; bench: |delta along the   *)
(*     last axis| <= bench.                                                *)
(* TIES.  A configuration in which some separation falls exactly on a      *)
(* limit is excluded (not WellPosed) unless the limit and the separation   *)
(* are exactly representable numbers (perfect squares, so that the         *)
(* floating-point evaluation is exact) -- for the lag limits only; ties    *)
(* on the angular (30/45/60 degrees), cylinder and bench limits are        *)
(* always excluded (documentation says "smaller than").                    *)
(*                                                                         *)
(* Results are exact: counts/weights are integers, averages are rationals  *)
(* <<num, den>>; mean separations and the non-polynomial estimators        *)
(* (madogram, rodogram) are given as groups {<<x, W>>} = total weight W of *)
(* the pairs whose squared distance (resp. |increment product|) is x, so   *)
(* that the only thing left to the comparer is sum(W*f(x))/sum(W).         *)
(***************************************************************************)
EXTENDS Integers, Sequences, FiniteSets, FiniteSetsExt, SequencesExt, TLC

NA == -99

Abs(x) == IF x < 0 THEN -x ELSE x
Sum(f(_), S) == FoldSet(LAMBDA x, acc : acc + f(x), 0, S)
Dot(u, v) == Sum(LAMBDA k : u[k] * v[k], DOMAIN u)
IsSquare(n) == \E r \in 0..n : r * r = n
MinOf(S) == CHOOSE x \in S : \A y \in S : x <= y
MaxOf(S) == CHOOSE x \in S : \A y \in S : x >= y
Defd(x) == x # NA

-----------------------------------------------------------------------------
(* Geometry of one pair                                                     *)

Act(pts) == {a \in 1..Len(pts) : pts[a].s = 1}
Delta(pts, a, b) == [k \in DOMAIN pts[a].p |-> pts[b].p[k] - pts[a].p[k]]
Dist2(pts, a, b) == LET dl == Delta(pts, a, b) IN Dot(dl, dl)

\* cos^2 of the angular tolerance, as a rational
Cos2(tolang) == CASE tolang = 0  -> <<1, 1>>
                  [] tolang = 30 -> <<3, 4>>
                  [] tolang = 45 -> <<1, 2>>
                  [] tolang = 60 -> <<1, 4>>
                  [] tolang = 90 -> <<0, 1>>

AngOK(dir, dl)  == LET c == Cos2(dir.tolang)  dt == Dot(dl, dir.cod)
                   IN  c[2] * dt * dt >= c[1] * Dot(dl, dl) * Dot(dir.cod, dir.cod)
AngTie(dir, dl) == LET c == Cos2(dir.tolang)  dt == Dot(dl, dir.cod)
                   IN  dir.tolang \notin {0, 90} /\ c[2] * dt * dt = c[1] * Dot(dl, dl) * Dot(dir.cod, dir.cod)
\* Cylinder: the distance of the pair to the AXIS of the direction, i.e. the norm of the component of dl
\* orthogonal to the NORMALISED direction u = cod/|cod| (DirParam does not normalise the vector the user
\* passes, the rule must not depend on its length):  |dl|^2 - (dl.u)^2 = (|dl|^2 |cod|^2 - (dl.cod)^2) / |cod|^2
Ortho2Num(dir, dl) == Dot(dl, dl) * Dot(dir.cod, dir.cod) - Dot(dl, dir.cod) * Dot(dl, dir.cod)
CylOK(dir, dl)  == dir.cn = 0 \/ Ortho2Num(dir, dl) * dir.cd * dir.cd <= dir.cn * dir.cn * Dot(dir.cod, dir.cod)
CylTie(dir, dl) == dir.cn # 0 /\ Ortho2Num(dir, dl) * dir.cd * dir.cd = dir.cn * dir.cn * Dot(dir.cod, dir.cod)
BenchOK(dir, dl)  == dir.bn = 0 \/ Abs(dl[Len(dl)]) * dir.bd <= dir.bn
BenchTie(dir, dl) == dir.bn # 0 /\ Abs(dl[Len(dl)]) * dir.bd = dir.bn

GeomOK(dir, dl) == Dot(dl, dl) = 0 \/ (AngOK(dir, dl) /\ CylOK(dir, dl) /\ BenchOK(dir, dl))

\* Lag classes (D = squared separation, P = squared lag step)
Nearest(dir, D, k)   == /\ (k = 0 \/ (2*k - 1) * (2*k - 1) * dir.p2 <= 4 * D)
                        /\ 4 * D < (2*k + 1) * (2*k + 1) * dir.p2
WithinTol(dir, D, k) == /\ (k * dir.td - dir.tn <= 0
                             \/ dir.td * dir.td * D >= (k * dir.td - dir.tn) * (k * dir.td - dir.tn) * dir.p2)
                        /\ dir.td * dir.td * D <= (k * dir.td + dir.tn) * (k * dir.td + dir.tn) * dir.p2
InLag(dir, D, k) == Nearest(dir, D, k) /\ WithinTol(dir, D, k)
Lags(dir) == 0..(dir.npas - 1)
LagOf(dir, D) == IF \E k \in Lags(dir) : InLag(dir, D, k) THEN CHOOSE k \in Lags(dir) : InLag(dir, D, k) ELSE -1
LagTie(dir, D) == \E k \in 0..dir.npas :
                     \/ 4 * D = (2*k + 1) * (2*k + 1) * dir.p2
                     \/ dir.td * dir.td * D = (k * dir.td + dir.tn) * (k * dir.td + dir.tn) * dir.p2
                     \/ (k * dir.td > dir.tn /\ dir.td * dir.td * D = (k * dir.td - dir.tn) * (k * dir.td - dir.tn) * dir.p2)

\* the ties the specification refuses to decide
PairTie(dir, dl) == LET D == Dot(dl, dl) IN
                      D > 0 /\ (\/ AngTie(dir, dl) \/ CylTie(dir, dl) \/ BenchTie(dir, dl)
                                \/ (LagTie(dir, D) /\ ~(IsSquare(dir.p2) /\ IsSquare(D))))
WellPosed(pts, dir) == \A a, b \in 1..Len(pts) : a < b => ~PairTie(dir, Delta(pts, a, b))

\* some separation sits exactly on a (representable) lag limit: the convention above decides
DecidedTie(pts, dir) == \E a, b \in Act(pts) : a < b /\ Dist2(pts, a, b) > 0 /\ LagTie(dir, Dist2(pts, a, b))

\* C12, first half: the pairs of a direction, each with THE lag that contains its separation
GeoPairs(pts, dir) == {t \in Act(pts) \X Act(pts) \X Lags(dir) :
                          /\ t[1] < t[2]
                          /\ GeomOK(dir, Delta(pts, t[1], t[2]))
                          /\ InLag(dir, Dist2(pts, t[1], t[2]), t[3])}
PairsOfLag(G, k) == {<<t[1], t[2]>> : t \in {u \in G : u[3] = k}}
\* "counted exactly once": no separation belongs to two lags
LagUnique(pts, dir) == \A a, b \in 1..Len(pts) :
                          a < b => Cardinality({k \in Lags(dir) : InLag(dir, Dist2(pts, a, b), k)}) <= 1

-----------------------------------------------------------------------------
(* Statistics of a set of pairs                                             *)

\* groups <<x, W>>: total weight of the elements whose key is x
Groups(S, key(_), wt(_)) == {<<x, Sum(wt, {e \in S : key(e) = x})>> : x \in {key(e) : e \in S}}

Z(pts, a, i) == pts[a].z[i]
W(pts, a) == pts[a].w

(* Symmetric estimators (variogram, madogram, rodogram, order 4, Poisson,    *)
(* and the ratios built on the variogram).  A pair contributes to (i,j) when *)
(* the four values are defined; its weight is w_a*w_b.                       *)
SymPairs(pts, P, i, j) == {e \in P : /\ Defd(Z(pts, e[1], i)) /\ Defd(Z(pts, e[2], i))
                                     /\ Defd(Z(pts, e[1], j)) /\ Defd(Z(pts, e[2], j))}
SymSlot(pts, P, i, j) ==
  LET Q == SymPairs(pts, P, i, j)
      ww(e) == W(pts, e[1]) * W(pts, e[2])
      dd(e) == (Z(pts, e[2], i) - Z(pts, e[1], i)) * (Z(pts, e[2], j) - Z(pts, e[1], j))
  IN [n  |-> Cardinality(Q),
      sw |-> Sum(ww, Q),
      hh |-> Groups(Q, LAMBDA e : Dist2(pts, e[1], e[2]), ww),
      g  |-> Sum(LAMBDA e : ww(e) * dd(e), Q),              \* variogram: g / (2 sw)
      q  |-> Sum(LAMBDA e : ww(e) * dd(e) * dd(e), Q),      \* order 4:   q / (2 sw)
      ad |-> Groups(Q, LAMBDA e : Abs(dd(e)), ww),          \* madogram: sum W sqrt(x) / (2 sw); rodogram: x^(1/4)
      u  |-> Sum(dd, Q),                                    \* unweighted sum (Poisson)
      lo |-> IF Q = {} THEN 0 ELSE MinOf({dd(e) : e \in Q}),
      hi |-> IF Q = {} THEN 0 ELSE MaxOf({dd(e) : e \in Q})]

(* Rational value <<num, den>> of the estimator `mode` in a slot (den = 0:   *)
(* undefined).  Sii, Sjj: slots of the simple variograms of the same lag.    *)
(* M = <<sum of z_i, count>> over the active samples where z_i is defined    *)
(* (Poisson, unweighted data, simple variograms only).                      *)
SymGG(mode, S, Sii, Sjj, M) ==
  CASE mode = "vg"      -> <<S.g, 2 * S.sw>>
    [] mode = "order4"  -> <<S.q, 2 * S.sw>>
    [] mode = "poisson" -> <<S.u * M[2] - 2 * S.n * M[1], 2 * S.n * M[2]>>        \* sum(d^2)/(2n) - mean
    [] mode = "trans1"  -> <<-(S.g * Sjj.sw), S.sw * Sjj.g>>                        \* -g_ij / g_jj
    [] mode = "trans2"  -> <<-(S.g * Sii.sw), S.sw * Sii.g>>                        \* -g_ij / g_ii
    [] OTHER            -> <<0, 0>>

(* Asymmetric estimators (covariance, non-centred covariance, covariogram).  *)
(* An unordered pair {a,b} has a TAIL and a HEAD: the head is the sample     *)
(* further along +cod.  C_ij(+k) averages z_i(tail)*z_j(head), C_ij(-k)      *)
(* averages z_i(head)*z_j(tail).  conv = "strict" is the convention of the   *)
(* code (z_i must be defined at BOTH samples before z_j is looked at);       *)
(* conv = "purist" needs the two values of the product only.                 *)
HeadOf(pts, dir, e) == IF Dot(Delta(pts, e[1], e[2]), dir.cod) >= 0 THEN e[2] ELSE e[1]
TailOf(pts, dir, e) == IF Dot(Delta(pts, e[1], e[2]), dir.cod) >= 0 THEN e[1] ELSE e[2]
\* a pair perpendicular to cod (or at zero distance) has no head: cross covariances undefined there
OrientTie(pts, dir, G) == \E t \in G : Dot(Delta(pts, t[1], t[2]), dir.cod) = 0

AsymPairs(pts, dir, P, i, j, side, conv) ==
  {e \in P : LET t == TailOf(pts, dir, e)  h == HeadOf(pts, dir, e) IN
               /\ (conv = "strict" => Defd(Z(pts, t, i)) /\ Defd(Z(pts, h, i)))
               /\ IF side = 1 THEN Defd(Z(pts, t, i)) /\ Defd(Z(pts, h, j))
                              ELSE Defd(Z(pts, h, i)) /\ Defd(Z(pts, t, j))}
AsymSlot(pts, dir, P, i, j, side, conv) ==
  LET Q == AsymPairs(pts, dir, P, i, j, side, conv)
      ww(e) == W(pts, e[1]) * W(pts, e[2])
      vv(e) == IF side = 1 THEN Z(pts, TailOf(pts, dir, e), i) * Z(pts, HeadOf(pts, dir, e), j)
                           ELSE Z(pts, HeadOf(pts, dir, e), i) * Z(pts, TailOf(pts, dir, e), j)
  IN [n  |-> Cardinality(Q),
      sw |-> Sum(ww, Q),
      hh |-> Groups(Q, LAMBDA e : Dist2(pts, e[1], e[2]), ww),
      c  |-> Sum(LAMBDA e : ww(e) * vv(e), Q),
      lo |-> IF Q = {} THEN 0 ELSE MinOf({vv(e) : e \in Q}),
      hi |-> IF Q = {} THEN 0 ELSE MaxOf({vv(e) : e \in Q})]

\* Centring statistics of a pair of variables: over the active samples where both are defined
Both(pts, i, j) == {a \in Act(pts) : Defd(Z(pts, a, i)) /\ Defd(Z(pts, a, j))}
Centre(pts, i, j) ==
  LET B == Both(pts, i, j) IN
    [sw |-> Sum(LAMBDA a : W(pts, a), B),                                   \* W
     w2 |-> Sum(LAMBDA a : W(pts, a) * W(pts, a), B),
     ai |-> Sum(LAMBDA a : W(pts, a) * Z(pts, a, i), B),                    \* mean_i = ai / sw
     aj |-> Sum(LAMBDA a : W(pts, a) * Z(pts, a, j), B),
     c1 |-> Sum(LAMBDA a : W(pts, a) * Z(pts, a, i) * Z(pts, a, j), B),
     c2 |-> Sum(LAMBDA a : W(pts, a) * W(pts, a) * Z(pts, a, i) * Z(pts, a, j), B)]

AsymGG(mode, S, C) ==
  CASE mode = "covnc" -> <<S.c, S.sw>>
    [] mode = "cov"   -> <<S.c * C.sw * C.sw - C.ai * C.aj * S.sw, S.sw * C.sw * C.sw>>   \* c/sw - mean_i*mean_j
    [] OTHER          -> <<0, 0>>
\* value at h = 0 (sw reported there = sum of the weights)
CentreGG(mode, C) ==
  CASE mode = "covnc" -> <<C.c2, C.w2>>
    [] mode = "cov"   -> <<C.c2 * C.sw * C.sw - C.ai * C.aj * C.w2, C.w2 * C.sw * C.sw>>
    [] mode = "covg"  -> <<C.c1, 1>>
    [] OTHER          -> <<0, 0>>

PoissonMean(pts, i) == LET B == {a \in Act(pts) : Defd(Z(pts, a, i))}
                       IN <<Sum(LAMBDA a : Z(pts, a, i), B), Cardinality(B)>>

(* BY-SAMPLE OPTION (flag_sample; forced by the library for the covariogram on  *)
(* scattered data).  The library documents it as "calculate the variogram per   *)
(* sample" and nothing more; which average of per-sample variograms is meant    *)
(* (and what sw counts) is not defined anywhere.  The property text covers:     *)
(* the pairs of a lag are those whose separation falls in the lag and           *)
(* direction, and the reported values are averages over those pairs.  Hence     *)
(* the law imposed on ANY by-sample estimator (fields n, hh, lo, hi of the      *)
(* slots above):                                                                *)
(*   - the lag is non-empty (sw > 0) iff n > 0, in THAT direction;              *)
(*   - hh lies between the smallest and the largest separation of the pairs;    *)
(*   - gg (gg/sw for the covariogram) lies between lo and hi, the smallest and  *)
(*     largest pair value (lo/2, hi/2 for the variogram);                       *)
(*   - the value at h = 0 is the one of the ordinary algorithm.                 *)
BySampleBounds(S, halve) == [empty |-> S.n = 0, hh2 |-> {g[1] : g \in S.hh},
                             lo |-> <<S.lo, IF halve THEN 2 ELSE 1>>, hi |-> <<S.hi, IF halve THEN 2 ELSE 1>>]

-----------------------------------------------------------------------------
(* Grid-specialised definitions (data given on the nodes of a regular grid; *)
(* a direction is a grid increment g; lag k = separation k*g exactly,       *)
(* 1 <= k < npas; lag 0 is not computed).                                   *)

NodeAt(pts, q) == IF \E a \in 1..Len(pts) : pts[a].p = q THEN CHOOSE a \in 1..Len(pts) : pts[a].p = q ELSE 0
Shift(p, g, m) == [k \in DOMAIN p |-> p[k] + m * g[k]]
GridPairsOfLag(pts, g, k) == {e \in Act(pts) \X Act(pts) : pts[e[2]].p = Shift(pts[e[1]].p, g, k)}

\* generalised variogram of order o (o+2 aligned points), single variable
Binom(n, k) == LET F[m \in 0..n] == IF m = 0 THEN 1 ELSE m * F[m - 1] IN F[n] \div (F[k] * F[n - k])
GenSlot(pts, g, k, o) ==
  LET node(a, q) == NodeAt(pts, Shift(pts[a].p, g, q * k))
      X == {a \in Act(pts) : \A q \in 0..(o + 1) :
                LET b == node(a, q) IN b # 0 /\ pts[b].s = 1 /\ Defd(Z(pts, b, 1))}
      inc(a) == Sum(LAMBDA q : (IF q % 2 = 0 THEN 1 ELSE -1) * Binom(o + 1, q) * Z(pts, node(a, q), 1), 0..(o + 1))
  IN [n |-> Cardinality(X), num |-> Sum(LAMBDA a : inc(a) * inc(a), X), den |-> Binom(2 * o + 2, o + 1) * Cardinality(X)]

-----------------------------------------------------------------------------
(* Transcription of the general algorithm of the code                       *)
(* (Vario::_calculateGeneralSolution1 + DirParam::getLagRank): samples       *)
(* sorted along x, double loop over later samples, early exit on the 1-D     *)
(* distance, nearest multiple then tolerance test.  TLC checks that it       *)
(* yields exactly GeoPairs.                                                  *)

SortedAlongX(pts) == SortSeq([a \in 1..Len(pts) |-> a],
                             LAMBDA a, b : pts[a].p[1] < pts[b].p[1] \/ (pts[a].p[1] = pts[b].p[1] /\ a < b))
\* rank of the nearest multiple (the one the code tests); npas stands for "npas or beyond"
NearestRank(dir, D) == IF \E k \in Lags(dir) : Nearest(dir, D, k) THEN CHOOSE k \in Lags(dir) : Nearest(dir, D, k) ELSE dir.npas
AlgoPairs(pts, dir) ==
  LET ord == SortedAlongX(pts)
      n == Len(pts)
      \* x_a - x_b > dpas*(npas + toldis) stops the inner loop (signed difference, as coded)
      Stop(a, b) == LET dx == pts[a].p[1] - pts[b].p[1] IN
                      dx > 0 /\ dir.td * dir.td * dx * dx > (dir.npas * dir.td + dir.tn) * (dir.npas * dir.td + dir.tn) * dir.p2
      Reached(ii, jj) == \A m \in (ii + 1)..jj : ~Stop(ord[ii], ord[m])
      rank(c) == NearestRank(dir, Dist2(pts, ord[c[1]], ord[c[2]]))
      kept == {c \in (1..n) \X (1..n) :
                 /\ c[1] < c[2] /\ Reached(c[1], c[2])
                 /\ pts[ord[c[1]]].s = 1 /\ pts[ord[c[2]]].s = 1
                 /\ GeomOK(dir, Delta(pts, ord[c[1]], ord[c[2]]))
                 /\ rank(c) < dir.npas /\ WithinTol(dir, Dist2(pts, ord[c[1]], ord[c[2]]), rank(c))}
  IN {<<IF ord[c[1]] < ord[c[2]] THEN ord[c[1]] ELSE ord[c[2]],
        IF ord[c[1]] < ord[c[2]] THEN ord[c[2]] ELSE ord[c[1]], rank(c)>> : c \in kept}

-----------------------------------------------------------------------------
(* The whole expected result of one direction, as one value (sets kept as    *)
(* sets so that two results can be compared for the laws below).             *)

\* the pairs of variables (i, j), j <= i, in the order (1,1), (2,1), (2,2), (3,1), ...  The result for
\* (j, i) is by definition the one of (i, j) (same lags: the storage is symmetric), whichever of the
\* two orders the reader of the result uses.
VarPairs(nvar) == CASE nvar = 1 -> << <<1, 1>> >>
                    [] nvar = 2 -> << <<1, 1>>, <<2, 1>>, <<2, 2>> >>
                    [] nvar = 3 -> << <<1, 1>>, <<2, 1>>, <<2, 2>>, <<3, 1>>, <<3, 2>>, <<3, 3>> >>

VarIdx(pts) == {ij \in (1..Len(pts[1].z)) \X (1..Len(pts[1].z)) : ij[2] <= ij[1]}
SymResultG(pts, dir, G) ==
  [ij \in VarIdx(pts) |-> [k \in Lags(dir) |-> SymSlot(pts, PairsOfLag(G, k), ij[1], ij[2])]]
AsymResultG(pts, dir, G, conv) ==
  [ij \in VarIdx(pts) |->
      [ctr |-> Centre(pts, ij[1], ij[2]),
       pos |-> [k \in Lags(dir) |-> AsymSlot(pts, dir, PairsOfLag(G, k), ij[1], ij[2], 1, conv)],
       neg |-> [k \in Lags(dir) |-> AsymSlot(pts, dir, PairsOfLag(G, k), ij[1], ij[2], -1, conv)]]]
SymResult(pts, dir) == SymResultG(pts, dir, GeoPairs(pts, dir))
AsymResult(pts, dir, conv) == AsymResultG(pts, dir, GeoPairs(pts, dir), conv)

\* does the purist convention keep a pair that the strict one (the code's) drops ?
PuristDiffersG(pts, dir, G) ==
  \E t \in G : \E ij \in VarIdx(pts) : \E side \in {1, -1} :
     AsymPairs(pts, dir, {<<t[1], t[2]>>}, ij[1], ij[2], side, "purist")
       # AsymPairs(pts, dir, {<<t[1], t[2]>>}, ij[1], ij[2], side, "strict")

-----------------------------------------------------------------------------
(* Laws of the definition (checked by TLC on the explored data sets)         *)

Permute(pts, perm) == [a \in 1..Len(pts) |-> pts[perm[a]]]
Translate(pts, t) == [a \in 1..Len(pts) |-> [pts[a] EXCEPT !.p = [k \in DOMAIN pts[a].p |-> pts[a].p[k] + t[k]]]]
SwapVars(pts) == [a \in 1..Len(pts) |-> [pts[a] EXCEPT !.z = <<pts[a].z[2], pts[a].z[1]>>]]
Reverse2(dir) == [dir EXCEPT !.cod = [k \in DOMAIN dir.cod |-> -dir.cod[k]]]
RevPerm(n) == [a \in 1..n |-> n + 1 - a]
RotPerm(n) == [a \in 1..n |-> (a % n) + 1]

\* the result does not depend on the order of the samples (cross covariances: unless a pair has no
\* orientation with respect to the direction)
LawPermutation(pts, dir, otie, S, A) ==
  \A perm \in {RevPerm(Len(pts)), RotPerm(Len(pts))} :
     /\ SymResult(Permute(pts, perm), dir) = S
     /\ (~otie => AsymResult(Permute(pts, perm), dir, "strict") = A)
\* ... nor on a translation of the coordinates
LawTranslation(pts, dir, t, S, A) ==
  /\ SymResult(Translate(pts, t), dir) = S
  /\ AsymResult(Translate(pts, t), dir, "strict") = A
\* reversing the direction vector: symmetric estimators unchanged, C(+k) <-> C(-k)
LawReverse(pts, dir, otie, S, A) ==
  /\ SymResult(pts, Reverse2(dir)) = S
  /\ (~otie => LET R == AsymResult(pts, Reverse2(dir), "strict") IN
                 \A ij \in DOMAIN A : R[ij].pos = A[ij].neg /\ R[ij].neg = A[ij].pos)
\* symmetry in the two variables: g_12 = g_21, the simple ones are exchanged; C_12(h) = C_21(-h)
\* (purist convention; the strict convention of the code satisfies it only where both variables
\* are defined at both samples of every pair -- see PuristDiffersG)
LawVarSymmetry(pts, dir, otie, S) ==
  Len(pts[1].z) = 2 =>
    LET t == SymResult(SwapVars(pts), dir)
        a == AsymResult(pts, dir, "purist")  b == AsymResult(SwapVars(pts), dir, "purist")
        core(x) == [n |-> x.n, sw |-> x.sw, hh |-> x.hh, c |-> x.c]
    IN /\ t[<<2, 1>>] = S[<<2, 1>>] /\ t[<<1, 1>>] = S[<<2, 2>>] /\ t[<<2, 2>>] = S[<<1, 1>>]
       /\ (~otie => \A k \in Lags(dir) : /\ core(b[<<2, 1>>].pos[k]) = core(a[<<2, 1>>].neg[k])
                                         /\ core(b[<<2, 1>>].neg[k]) = core(a[<<2, 1>>].pos[k]))

\* the transcription of the code's general algorithm finds the pairs of the definition
LawAlgorithm(pts, dir, G) == AlgoPairs(pts, dir) = G

\* a grid increment g as a general direction: cod = g, exact direction, dpas = |g|
GridCompatible(dir) == dir.tolang = 0 /\ dir.p2 = Dot(dir.cod, dir.cod) /\ dir.bn = 0 /\ dir.cn = 0
\* the grid-specialised pair enumeration agrees with the general definition on gridded data
LawGrid(pts, dir, G) ==
  GridCompatible(dir) =>
      \A k \in 1..(dir.npas - 1) :
         {{e[1], e[2]} : e \in GridPairsOfLag(pts, dir.cod, k)} = {{e[1], e[2]} : e \in PairsOfLag(G, k)}

Laws(pts, dir, t) ==
  LET G == GeoPairs(pts, dir)
      otie == OrientTie(pts, dir, G)
      S == SymResultG(pts, dir, G)
      A == AsymResultG(pts, dir, G, "strict")
  IN /\ LagUnique(pts, dir)
     /\ LawAlgorithm(pts, dir, G)
     /\ LawPermutation(pts, dir, otie, S, A)
     /\ LawTranslation(pts, dir, t, S, A)
     /\ LawReverse(pts, dir, otie, S, A)
     /\ LawVarSymmetry(pts, dir, otie, S)
     /\ LawGrid(pts, dir, G)
=============================================================================
