---------------------------- MODULE MC_DbTable ----------------------------
(* Exhaustive exploration of the reference semantics of DbTable within small   *)
(* constants: every catalogue entry in every reachable state.  Checks C07 as an *)
(* invariant, and that the relation Judge accepts the reference (so that the    *)
(* relation used to judge the real library is satisfiable = not over-strict).   *)
EXTENDS DbTable, Json

CONSTANT SkipOps      \* entry points left out of this exploration (the cell writers multiply the cell contents: they are
                      \* explored at the small bound only)
VARIABLES st, last
vars == <<st, last>>

Init == st \in {EmptyDb(n, g) : n \in {1, 2}, g \in BOOLEAN} /\ last = [op |-> "init"]
Next == \E c \in Catalogue :
          /\ c.op \notin SkipOps
          /\ WithinBounds(c, st)
          /\ st' = Do(c, st)
          /\ last' = c
Spec == Init /\ [][Next]_vars

Inv_Consistent == Consistent(st)
\* action property: the relation accepts the reference semantics, and role assignments in range
\* keep the table consistent
JudgeAcceptsRef == [][ Judge(last', st, st') ]_vars
NoResurrection == [][ st'.nuid >= st.nuid /\ \A u \in Uids(st') : u \in Uids(st) \/ u >= st.nuid ]_vars
FrameCells == [][ \A u \in Uids(st) \cap Uids(st') :
                    last'.op \in {"addColumnsByConstant", "deleteColumnByUID", "deleteColumnByColIdx", "deleteColumn",
                                  "deleteColumnsByLocator", "deleteColumnsByUID", "deleteColumnsByColIdx",
                                  "setLocatorByUID", "setLocatorByColIdx", "setLocator", "setLocatorsByUID",
                                  "setLocatorsByColIdx", "clearLocators", "switchLocator", "setName", "setNameByUID",
                                  "setNameByColIdx", "copy"}
                    => st'.cols[ColOf(st', u)].cells = st.cols[ColOf(st, u)].cells ]_vars
View == st
=============================================================================
