\* One of the configurations of the quick tier of C12 (tools/checks/c12.py generates one cfg per
\* family of data sets: see tiers()).  Manual run:  tlc -workers 4 -config MC_VarioPairs_quick.cfg MC_VarioPairs.tla
SPECIFICATION Spec
CONSTANTS
  NX = 3
  NY = 3
  NZ = 0
  MinN = 2
  MaxN = 4
  Vals0 = {0, 1, 2}
  HasNA = TRUE
  NVar = 1
  UseSel = FALSE
  Weights = {1}
  AllowDup = FALSE
  DirSet = "q2"
  Modes = {"vg", "cov", "covnc", "covg", "mado", "rodo", "poisson", "order4"}
  SampleMod = 40
  SampleRem = 1
  Seed = 1
  LawMod = 3
  DirsPerCase = 2
INVARIANT InvLaws InvEmit
CHECK_DEADLOCK FALSE
