SPECIFICATION Spec
CONSTANTS
  Parts = {"tgb", "cond", "layout", "rule", "cases"}
  Seeds = {1013, 500017}
  MaxNbSimu = 3
  GN = 2
  GSweeps = 3
  CaseSweeps = 10
  Tier = "quick"
INVARIANT Inv_Tgb Inv_Cond Inv_Rule
CONSTRAINT Emit
CHECK_DEADLOCK FALSE
