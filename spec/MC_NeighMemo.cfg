SPECIFICATION Spec
CONSTANTS
  MaxLen = 4
  MemoCleared = {"setNMaxi", "setFlagXvalid", "setRankColCok"}
CONSTRAINT EmitScripts
CHECK_DEADLOCK FALSE
