------------------------- MODULE EmitDbCatalogue -------------------------
(* Writes the operation catalogue of DbTable (for the constants of the cfg) as JSON, *)
(* so that the harness exploring the real Db applies exactly the entries TLC uses.   *)
EXTENDS DbTable, Json, IOUtils, SequencesExt
ASSUME JsonSerialize(IOEnv.OUT, SetToSeq(Catalogue))
VARIABLE x
Spec == x = 0 /\ [][UNCHANGED x]_x
=============================================================================
