--------------------------- MODULE MC_NeutralFile ---------------------------
(* C08 on the model: for every abstract instance o picked by the driver (file IOEnv.PICKS: class,   *)
(* structure, digit vector)                                                                        *)
(*     f  = Write(o)            (transcribed writer of the class)                                   *)
(*     rt = Read(f) = o         (transcribed reader of the class, real primitives)                  *)
(*     rw = Write(Read(f)) = f                                                                      *)
(*     id = the intended reader accepts f and returns o (it is not over-strict)                     *)
(* and the instance is emitted (recipe + expected token stream) for the conformance run against     *)
(* the real library.  A failed rt / rw is a writer/reader pair that disagrees in the code as        *)
(* transcribed; the driver reports it (it is not an error of the model run).                        *)
EXTENDS NeutralFile, Json, IOUtils, SequencesExt

Picks == ndJsonDeserialize(IOEnv.PICKS)

VARIABLES n, ph
vars == <<n, ph>>

Case(k) ==
  LET p  == Picks[k]
      o  == Instance(p.c, p.s, p.d)
      f  == FileW(p.c, o)
      r  == ReadF(p.c, f, "real")
      ri == ReadF(p.c, f, "ideal")
  IN [id |-> k, c |-> p.c, s |-> p.s, d |-> p.d, o |-> o, lines |-> f,
      \* (no grammar is modelled for the grid exchange formats: the instance and the expectation only)
      rt |-> (p.c \in ExchangeFormats \/ (r.ok /\ r.o = o)), rw |-> (p.c \in ExchangeFormats \/ (r.ok /\ FileW(p.c, r.o) = f)),
      ideal |-> (p.c \in ExchangeFormats \/ (ri.ok /\ ri.o = o)),
      rok |-> r.ok, ev |-> SetToSeq(r.ev), at |-> r.at, traits |-> SetToSeq(Traits(p.c, o)),
      \* kinds of fields that the file holds: roles of its tokens (count, enum, index, int, val), "vecrow" = a line of values
      kinds |-> SetToSeq(FieldKinds(p.c, o)),
      mdiff |-> IF p.c \notin ExchangeFormats /\ r.ok /\ r.o # o THEN SetToSeq(DiffFields(o, r.o)) ELSE <<>>]

Init == n \in 1..Len(Picks) /\ ph = 0
Next == ph = 0 /\ ph' = 1 /\ n' = n /\ PrintT(ToJson(Case(n)))
Spec == Init /\ [][Next]_vars
=============================================================================
