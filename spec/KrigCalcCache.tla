--------------------------- MODULE KrigCalcCache ---------------------------
(***************************************************************************)
(* The lazy algebra of gstlearn's KrigingCalcul (property C10: an object    *)
(* updated incrementally answers as a freshly built one with the same final *)
(* content; results do not depend on what was called before).               *)
(*                                                                         *)
(* Inputs are handed over by setters (each call installs a new VERSION of   *)
(* the input); every intermediate matrix is a cached NODE computed on demand *)
(* from other nodes and inputs (relation Needs, transcribed from the _need*  *)
(* functions) and freed by the invalidation functions (_delete*, transcribed *)
(* edge by edge in Calls / Frees).  A cached node remembers the versions of  *)
(* the inputs it was (transitively) computed from.                           *)
(*                                                                         *)
(*   Fresh == the value a getter returns was computed from the current      *)
(*            versions of all the inputs it depends on.                      *)
(*                                                                         *)
(* Two protocols: "intended" (every setter invalidates what depends on what  *)
(* it sets; every delete function frees its own node) and "transcribed"      *)
(* (the tree under verification).  TLC checks Fresh as an invariant of the   *)
(* intended protocol, lists the stale (history, getter) pairs of the         *)
(* transcribed one, and emits every history as a replay script for the real  *)
(* object (harness hist_run, mode krigcalc).                                 *)
(***************************************************************************)
EXTENDS Integers, Sequences, FiniteSets, TLC, Json, SequencesExt

CONSTANTS MaxLen,      \* length of the histories explored
          Modes        \* subset of {"SK","UK","BAYES","COLCOK"}

Inputs == {"Z", "Sigma", "X", "Sigma0", "X0", "Sigma00", "Prior", "ColCok"}
Nodes  == {"InvSigma", "InvPriorCov", "XtInvSigma", "Sigmac", "Beta", "InvSigmaSigma0", "Sigma0p", "Sigma00p",
           "Sigma00pp", "X0p", "Z0p", "Y0", "Y0p", "Lambda0", "LambdaSK", "MuUK", "LambdaUK", "VarZSK", "VarZUK",
           "Stdv", "Zstar"}

\* which inputs / nodes exist in a mode
HasX(m)      == m \in {"UK", "BAYES", "COLCOK"}
HasPrior(m)  == m = "BAYES"
HasColCok(m) == m = "COLCOK"
InputsOf(m) == {"Z", "Sigma", "Sigma0", "Sigma00"} \cup (IF HasX(m) THEN {"X", "X0"} ELSE {})
               \cup (IF HasPrior(m) THEN {"Prior"} ELSE {}) \cup (IF HasColCok(m) THEN {"ColCok"} ELSE {})
NodesOf(m) == {"InvSigma", "InvSigmaSigma0", "LambdaSK", "VarZSK", "Stdv", "Zstar"}
              \cup (IF HasX(m) THEN {"XtInvSigma", "Sigmac", "Beta", "Y0", "MuUK", "LambdaUK", "VarZUK"} ELSE {})
              \cup (IF HasPrior(m) THEN {"InvPriorCov"} ELSE {})
              \cup (IF HasColCok(m) THEN {"Sigma0p", "Sigma00p", "Sigma00pp", "X0p", "Z0p", "Y0p", "Lambda0"} ELSE {})

\* what each node is computed from (union over the branches of the _need* functions)
NeedsAll(n) ==
  CASE n = "InvSigma"       -> {"Sigma"}
    [] n = "InvPriorCov"    -> {"Prior"}
    [] n = "XtInvSigma"     -> {"InvSigma", "X"}
    [] n = "Sigmac"         -> {"InvPriorCov", "X", "XtInvSigma"}
    [] n = "Beta"           -> {"InvPriorCov", "Prior", "Sigmac", "XtInvSigma", "Z"}
    [] n = "InvSigmaSigma0" -> {"InvSigma", "Sigma0"}
    [] n = "Sigma0p"        -> {"ColCok", "Sigma0"}
    [] n = "Sigma00p"       -> {"ColCok", "Sigma00"}
    [] n = "Sigma00pp"      -> {"ColCok", "Sigma00"}
    [] n = "X0p"            -> {"ColCok", "X0"}
    [] n = "Z0p"            -> {"ColCok"}
    [] n = "Y0"             -> {"InvSigmaSigma0", "X0"}
    [] n = "Y0p"            -> {"Sigma0p", "X0p", "XtInvSigma"}
    [] n = "Lambda0"        -> {"InvSigma", "Sigma00p", "Sigma00pp", "Sigma0p", "Sigmac", "Y0", "Y0p"}
    [] n = "LambdaSK"       -> {"InvSigmaSigma0", "Lambda0", "Sigma0p"}
    [] n = "MuUK"           -> {"Lambda0", "Sigmac", "Y0", "Y0p"}
    [] n = "LambdaUK"       -> {"LambdaSK", "MuUK", "XtInvSigma"}
    [] n = "VarZSK"         -> {"LambdaSK", "Sigma0"}
    [] n = "VarZUK"         -> {"LambdaUK", "Sigma0"}
    [] n = "Stdv"           -> {"Sigma00", "VarZSK", "LambdaUK", "MuUK", "Sigma0", "X0", "Sigma00p", "Lambda0"}
    [] n = "Zstar"          -> {"Z", "LambdaSK", "LambdaUK", "Beta", "Y0", "Sigma0", "X0", "Lambda0", "Z0p", "Sigma0p", "Sigma00pp"}
Needs(m, n) == LET all == NeedsAll(n) \cap (InputsOf(m) \cup NodesOf(m)) IN
               \* simple vs universal kriging take different branches
               IF HasX(m) THEN (IF n = "Stdv" THEN all \ {"VarZSK"} ELSE all)
               ELSE all

\* ---- invalidation functions, transcribed from KrigingCalcul.cpp (_delete*) ----
DelFns == Inputs \cup Nodes \cup {"PriorCov", "PriorMean", "Zp"}
CallsT(d) ==
  CASE d = "X"        -> {"XtInvSigma", "Sigmac"}
    [] d = "X0"       -> {"X0p", "Y0", "Stdv"}
    [] d = "Sigma"    -> {"InvSigma"}
    [] d = "Sigma0"   -> {"Stdv", "Sigma0p", "InvSigmaSigma0", "VarZSK", "VarZUK"}
    [] d = "Sigma00"  -> {"Sigma00p", "Sigma00pp", "Lambda0", "Stdv"}
    [] d = "Beta"     -> {"Zstar"}
    [] d = "InvSigma" -> {"InvSigmaSigma0", "LambdaSK", "Lambda0", "XtInvSigma"}
    [] d = "LambdaSK" -> {"LambdaUK", "Zstar", "VarZSK"}
    [] d = "LambdaUK" -> {"VarZUK", "Stdv", "Zstar"}
    [] d = "MuUK"     -> {"LambdaUK", "Stdv"}
    [] d = "Sigmac"   -> {"Lambda0", "Beta", "MuUK"}
    [] d = "Y0"       -> {"Zstar", "MuUK", "Lambda0"}
    [] d = "XtInvSigma" -> {"Y0p", "LambdaUK", "Sigmac", "Beta"}
    [] d = "VarZSK"   -> {"Stdv"}
    [] d = "InvPriorCov" -> {"Sigmac", "Beta"}
    [] d = "Sigma0p"  -> {"Y0p", "LambdaSK", "Lambda0", "VarZUK"}
    [] d = "Sigma00p" -> {"Lambda0", "Stdv"}
    [] d = "Sigma00pp" -> {"Lambda0", "VarZUK"}
    [] d = "X0p"      -> {"Y0p"}
    [] d = "Y0p"      -> {"Zstar", "MuUK", "Lambda0"}
    [] d = "Z0p"      -> {"Zstar"}
    [] d = "Lambda0"  -> {"VarZUK", "MuUK", "LambdaSK"}
    [] d = "InvSigmaSigma0" -> {"Y0", "LambdaSK"}
    [] d = "PriorCov" -> {"InvPriorCov"}
    [] d = "PriorMean" -> {"Beta"}
    [] d = "Prior"    -> {"PriorCov", "PriorMean"}
    [] d = "Z"        -> {"Zstar", "Beta"}
    [] d = "Zp"       -> {"Z0p"}
    [] d = "ColCok"   -> {"Zp", "X0p", "Z0p", "Sigma0p", "Sigma00p", "Sigma00pp"}
    [] OTHER          -> {}
\* the cached object a delete function frees itself (before the repair recorded in
\* KNOWN_FINDINGS.json, _deleteY0p freed _Y0: TLC predicted the stale collocated results)
FreesT(d) == IF d \in Nodes THEN {d} ELSE {}
FreesI(d) == IF d \in Nodes THEN {d} ELSE {}

RECURSIVE Closure(_, _)
Closure(S, done) == IF S \subseteq done THEN done
                    ELSE LET d == CHOOSE x \in S \ done : TRUE IN Closure((S \ {d}) \cup CallsT(d), done \cup {d})
FreedBy(proto, roots) == UNION {IF proto = "transcribed" THEN FreesT(d) ELSE FreesI(d) : d \in Closure(roots, {})}

\* intended: a setter frees every node that transitively needs what it sets
RECURSIVE Dependents(_, _, _)
Dependents(m, S, acc) == LET new == {n \in NodesOf(m) : Needs(m, n) \cap (S \cup acc) # {}} \ acc IN
                         IF new = {} THEN acc ELSE Dependents(m, S, acc \cup new)

\* "unsetBayes" = setBayes(nullptr, nullptr) and "unsetColCok" = setColCokUnique(nullptr, nullptr): the documented way of
\* switching an option off (version 0 of the input = option off)
Setters == {"setData", "setLHS", "setRHS", "setVar", "setBayes", "setColCok", "unsetBayes", "unsetColCok"}
Sets(s) == CASE s = "setData" -> {"Z"} [] s = "setLHS" -> {"Sigma", "X"} [] s = "setRHS" -> {"Sigma0", "X0"}
             [] s = "setVar" -> {"Sigma00"} [] s \in {"setBayes", "unsetBayes"} -> {"Prior"}
             [] s \in {"setColCok", "unsetColCok"} -> {"ColCok"}
\* version installed by a setter, given the current one
NewVer(s, v) == IF s \in {"unsetBayes", "unsetColCok"} THEN 0 ELSE IF v = 1 THEN 2 ELSE 1
\* what the setter invalidates in the tree under verification (resetLinkedTo*; before the repair
\* recorded in KNOWN_FINDINGS.json setVar called nothing: TLC predicted the stale Stdv)
RootsT(s) == Sets(s)
SettersOf(m) == {s \in Setters : Sets(s) \cap InputsOf(m) # {}}
Getters == {"Zstar", "Stdv", "VarZ", "Beta", "Sigmac", "MuUK", "Lambda0", "Lambda"}
GetNode(m, g) == CASE g = "VarZ" -> (IF HasX(m) THEN "VarZUK" ELSE "VarZSK")
                   [] g = "Lambda" -> (IF HasX(m) THEN "LambdaUK" ELSE "LambdaSK")
                   [] OTHER -> g
GettersOf(m) == {g \in Getters : GetNode(m, g) \in NodesOf(m)}

VARIABLES mode, proto, ver, cache, hist, lastGet
\* ver   : [input -> version]
\* cache : [node -> "absent" or snapshot [input -> version] of the inputs it was computed from]
vars == <<mode, proto, ver, cache, hist, lastGet>>
Absent == [absent |-> TRUE]

Init == /\ mode \in Modes /\ proto \in {"intended", "transcribed"}
        /\ ver = [i \in InputsOf(mode) |-> 1]
        /\ cache = [n \in NodesOf(mode) |-> Absent]
        /\ hist = <<>> /\ lastGet = [fresh |-> TRUE]

Set(s) ==
  /\ Len(hist) < MaxLen
  /\ s \in SettersOf(mode)
  /\ (s \in {"unsetBayes", "unsetColCok"} => \A i \in Sets(s) : ver[i] # 0)
  /\ ver' = [i \in InputsOf(mode) |-> IF i \in Sets(s) THEN NewVer(s, ver[i]) ELSE ver[i]]
  /\ LET freed == IF proto = "intended" THEN Dependents(mode, Sets(s), {})
                  ELSE FreedBy(proto, RootsT(s)) \cap NodesOf(mode)
     IN cache' = [n \in NodesOf(mode) |-> IF n \in freed THEN Absent ELSE cache[n]]
  /\ hist' = Append(hist, [op |-> s])
  /\ UNCHANGED <<mode, proto, lastGet>>

\* evaluation on demand: a present node is reused as it is, an absent one is computed from its needs
RECURSIVE Snap(_, _, _)
Snap(m, c, x) == IF x \in Inputs THEN [i \in {x} |-> ver[x]]
                 ELSE IF c[x] # Absent THEN c[x]
                 ELSE LET parts == {Snap(m, c, y) : y \in Needs(m, x)}
                          dom == UNION {DOMAIN p : p \in parts}
                      IN [i \in dom |-> LET ps == {p \in parts : i \in DOMAIN p} IN
                                         \* a stale part wins: the value is stale (-1) if any part is
                                         IF \E p \in ps : p[i] # ver[i] THEN -1 ELSE ver[i]]
RECURSIVE Computed(_, _, _)
Computed(m, c, x) == IF x \in Inputs \/ c[x] # Absent THEN {}
                     ELSE {x} \cup UNION {Computed(m, c, y) : y \in Needs(m, x)}

Get(g) ==
  /\ Len(hist) < MaxLen
  /\ g \in GettersOf(mode)
  /\ LET n == GetNode(mode, g)
         snap == Snap(mode, cache, n)
         comp == Computed(mode, cache, n)
     IN /\ cache' = [x \in NodesOf(mode) |-> IF x \in comp THEN Snap(mode, cache, x) ELSE cache[x]]
        /\ lastGet' = [fresh |-> \A i \in DOMAIN snap : snap[i] = ver[i], getter |-> g]
  /\ hist' = Append(hist, [op |-> "get", g |-> g])
  /\ UNCHANGED <<mode, proto, ver>>

Next == (\E s \in Setters : Set(s)) \/ (\E g \in Getters : Get(g))
Spec == Init /\ [][Next]_vars

Fresh == lastGet.fresh
FreshIntended == proto = "intended" => Fresh

\* How a setter hands a new version of an input over to the object: a NEW object (new address), or the SAME
\* object whose content was updated before the call ("its address is kept unchanged, even if its contents may
\* have been updated", documentation of setData / setLHS).  The abstract transition Set(s) is the same (a new
\* version is installed and what depends on it is invalidated): both styles are replayed on the real object.
Styles == {"address", "inplace"}

\* every history ending with a getter is a replay script (one per style); stale ones are the predictions
EmitScripts == (hist = <<>> \/ hist[Len(hist)].op # "get" \/ proto # "transcribed")
               \/ \A st \in Styles : PrintT(ToJson([mode |-> mode, style |-> st, hist |-> hist, predicted_fresh |-> lastGet.fresh]))
=============================================================================
