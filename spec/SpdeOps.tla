------------------------------ MODULE SpdeOps ------------------------------
(***************************************************************************)
(* Property C15, operator and solver clauses:                               *)
(*                                                                         *)
(*  "for every mesh and Matern-type model, the matrix-free precision        *)
(*   operator and the explicitly assembled sparse precision matrix apply    *)
(*   identically to every vector, and that matrix is symmetric positive     *)
(*   definite; ... kriging and log-likelihood computed through sparse       *)
(*   Cholesky factorisation and through the iterative matrix-free solver    *)
(*   agree to the solver tolerance, and every linear solve returns a        *)
(*   vector satisfying its system to that tolerance"                        *)
(*                                                                         *)
(* These clauses are statements about real numbers: TLC cannot evaluate     *)
(* them.  What this module fixes, and TLC enumerates / checks, is           *)
(*  - the space of configurations (mesh, geometry, Matern model, data       *)
(*    layout, solver settings), bounded and symmetry-reduced (Configs);     *)
(*  - for every configuration the list of PROOF OBLIGATIONS: named          *)
(*    relations between real executions of gstlearn, each with the          *)
(*    quantity to measure, the reference it is relative to and its          *)
(*    tolerance (Obligations); the tolerances are constants of this         *)
(*    module and travel with the emitted cases;                             *)
(*  - that the obligations cover every clause of the property in every      *)
(*    configuration (Covered);                                              *)
(*  - the integer test vectors and the laws of linearity they instantiate   *)
(*    ("every vector" is decided on the canonical basis + linearity);       *)
(*  - the part that IS exact: polynomials of a diagonal operator with       *)
(*    small integer coefficients (PolyCases), for which TLC computes the    *)
(*    expected vectors.                                                     *)
(* The harness spde_run (mode ops) executes the real objects and measures   *)
(* each relation; tools/checks/c15.py compares measure and tolerance.       *)
(***************************************************************************)
EXTENDS Integers, Sequences, FiniteSets, TLC

CONSTANTS Dims,           \* space dimensions
          MeshChoices(_), \* nd |-> set of [fam, nx]: family (as in SpdeMesh) and node counts
          RotCodes(_),    \* nd |-> set of angle-code tuples of the mesh (as in SpdeMesh)
          Alpha2s(_),     \* nd |-> set of 2*alpha, alpha = nu + nd/2 (even: integer alpha)
          Anisos(_),      \* nd |-> subset of {"iso", "aniso", "rotaniso"}
          Sills,          \* set of sills, in halves (2 = sill 1)
          Layouts,        \* subset of {"spread", "cluster", "nodes", "outside"}
          Verrs,          \* data error variance: subset of {"const", "distinct", "extreme"}
          NStructs,       \* numbers of Matern structures of the model: subset of {1, 2}
          Drifts,         \* subset of {"none", "const", "linear"}: no drift, unknown constant mean, linear drift
          Keep(_),        \* symmetry reduction / thinning of the product (TRUE = keep the configuration)
          HeavyEvery      \* the heavy obligations are executed on one configuration out of HeavyEvery

-----------------------------------------------------------------------------
(* Tolerances (m * 10^e), stated once                                       *)

T(m, e) == [m |-> m, e |-> e]
\* two implementations of the same linear map, in doubles: 1e-9 relative to max |Q e_i|
TolSameMap     == T(1, -9)
\* symmetry of an assembled matrix: exact up to the rounding of the two scalings, relative to max |Q_ij|
TolSymmetric   == T(1, -12)
\* backward error of a direct (Cholesky) solve |A x - b| / (|A|_F |x| + |b|): a few n * 1e-16 for a stable solver
TolDirectSolve == T(1, -10)
\* iterative solvers: the stopping rule of the code, with a safety factor (>= 100) on the residual norm
Safety         == 100
\* ALinearOpMulti::evalInverse stops when r'r / sum_i |b_i| <= eps  (default of the class, used by SPDE: 1e-8,
\* at most 1000 iterations): |A x - b| <= sqrt(eps * sum_i |b_i|)
CgEpsDefault   == T(1, -8)
CgEpsSet       == { T(1, -4), T(1, -8), T(1, -12) }     \* values set explicitly through setEps
CgNIterMax     == 1000
\* options of that solver, part of the quantifier "every linear solve": period of the restart (the residual b - A x is
\* recomputed exactly every so many iterations; 0 = never) and preconditioner M (then the rule is r'Mr / sum_i |b_i| <= eps;
\* with the Jacobi preconditioner M = diag(A)^-1 used here r'r <= max_i A_ii r'Mr, so |A x - b| <= sqrt(eps sum|b_i| max A_ii)).
\* The class neither documents nor reports what happens when the iteration limit is reached: nothing is asserted there.
CgRestarts     == <<0, 3, 7, 20>>
CgPreconds     == {FALSE, TRUE}
\* Eigen::ConjugateGradient (LinearOpCGSolver) stops when |r| <= tol |b|; the values set explicitly:
EigenTolSet    == { T(1, -5), T(1, -10) }
EigenTolKrigingSPDENew == T(1, -5)       \* hard-coded in krigingSPDENew, 1000 iterations

-----------------------------------------------------------------------------
(* Configurations                                                           *)

\* nu = alpha - nd/2 must be positive (Matern)
NuOk(nd, a2) == a2 > nd

Configs == UNION { { [nd |-> nd, mesh |-> mc, rot |-> rc, alpha2 |-> a2, aniso |-> an, sill2 |-> s, layout |-> l, verr |-> ve, nstruct |-> ns, drift |-> dr] :
                       mc \in MeshChoices(nd), rc \in RotCodes(nd), a2 \in { a \in Alpha2s(nd) : NuOk(nd, a) },
                       an \in Anisos(nd), s \in Sills, l \in Layouts, ve \in Verrs, ns \in NStructs, dr \in Drifts } : nd \in Dims }
Kept == { c \in Configs : Keep(c) }

NTot(nd, nx) == IF nd = 1 THEN nx[1] ELSE IF nd = 2 THEN nx[1] * nx[2] ELSE nx[1] * nx[2] * nx[3]
\* a masked turbo mesh (family turbomask of SpdeMesh) loses the masked corner nodes: the first one in 1-D, two otherwise
NApices(c)   == NTot(c.nd, c.mesh.nx) - (IF c.mesh.fam = "turbomask" THEN (IF c.nd = 1 THEN 1 ELSE 2) ELSE 0)

\* Matern model of the configuration, relative to the mesh size h of the first direction:
\*   nu = (alpha2 - nd) / 2; ranges (in cells) 3 (iso) or 4, 2(, 3) along the axes of the anisotropy, which are
\*   the axes of space ("aniso") or turned by the 3-4-5 angle around Oz ("rotaniso"); sill = sill2 / 2
\*   (twice as long for the second sill, so that short and long ranges relative to the mesh are both met)
RangeBase(c)  == IF c.aniso = "iso" THEN (IF c.nd = 1 THEN <<3>> ELSE IF c.nd = 2 THEN <<3, 3>> ELSE <<3, 3, 3>>)
                 ELSE (IF c.nd = 1 THEN <<4>> ELSE IF c.nd = 2 THEN <<4, 2>> ELSE <<4, 2, 3>>)
RangeCells(c) == LET f == IF c.sill2 = 2 THEN 1 ELSE 2  b == RangeBase(c) IN [k \in 1..c.nd |-> f * b[k]]
\* second Matern structure (nstruct = 2): another smoothness (alpha 2 <-> 3), isotropic, twice the ranges, unit sill.
\* The covariance of the data is then Sigma = sum_k A_k Q_k^-1 A_k' + D, and with a drift of basis X (columns 1 or
\* 1, x_1 .. x_nd at the data) the coefficients are the generalised least squares ones (X' Sigma^-1 X)^-1 X' Sigma^-1 z.
Struct2(c) == [alpha2 |-> IF c.alpha2 = 4 THEN 6 ELSE 4, ranges |-> [k \in 1..c.nd |-> 6], sill2 |-> 2]
DriftOrder(c) == IF c.drift = "none" THEN -1 ELSE IF c.drift = "const" THEN 0 ELSE 1
AnisoAngleCode(c) == IF c.aniso = "rotaniso" THEN 4 ELSE 0

-----------------------------------------------------------------------------
(* Data of a configuration: positions in quarter-cell units of the index space of the mesh (as in SpdeMesh),   *)
(* values and measurement-error variance.  Targets of kriging = the nodes of the mesh + the data points.        *)

U == 4
Last(c, k) == U * (c.mesh.nx[k] - 1)
Pt(c, a, b, d) == IF c.nd = 1 THEN <<a>> ELSE IF c.nd = 2 THEN <<a, b>> ELSE <<a, b, d>>
\* coordinates are kept inside the grid: min(., Last)
In(c, k, v) == IF v > Last(c, k) - 1 THEN Last(c, k) - 1 ELSE v
P3(c, a, b, d) == Pt(c, In(c, 1, a), IF c.nd >= 2 THEN In(c, 2, b) ELSE 0, IF c.nd >= 3 THEN In(c, 3, d) ELSE 0)

\* two more data in every layout, so that a linear drift (1 + nd coefficients) leaves at least two degrees of freedom
MoreData(c) == << P3(c, 5, 6, 2), P3(c, 3, 1, 6) >>
DataPts(c) == MoreData(c) \o
  CASE c.layout = "spread"  -> << P3(c, 1, 2, 1), P3(c, 6, 1, 3), P3(c, 3, 6, 5), P3(c, 7, 7, 2), P3(c, 5, 3, 7) >>
    [] c.layout = "cluster" -> << P3(c, 1, 1, 1), P3(c, 2, 1, 1), P3(c, 1, 2, 1), P3(c, 2, 2, 1), P3(c, 6, 5, 3) >>   \* several data in one simplex
    [] c.layout = "nodes"   -> << Pt(c, 4, 4, 4), Pt(c, 0, 0, 0), Pt(c, Last(c, 1), 0, 0), P3(c, 2, 3, 1) >>          \* data on mesh nodes
    [] c.layout = "outside" -> << P3(c, 1, 2, 1), Pt(c, Last(c, 1) + 2, 1, 1), P3(c, 6, 5, 3), P3(c, 3, 6, 5) >>    \* one datum beyond the mesh
DataVals(c) == [i \in 1..Len(DataPts(c)) |-> ((7 * i) % 5) - 2]            \* small integers
\* measurement-error variance = nugget of the model, as a fraction of the sill: 1/10 or 1/1000 (stiffer system)
NuggetInv(c) == IF c.layout = "cluster" THEN 1000 ELSE 10
\* Data error variance D = diag(s2_i) of the kriging system (Q + A' D^-1 A) x = A' D^-1 z:
\*   "const"    the nugget effect of the model, the same for every datum (no variable V);
\*   "distinct" a variance of measurement error per datum (locator V), all different: (i + 1) / 20 of the total sill
\*              (sum of the sills of the Matern structures);
\*   "extreme"  per datum, one very small (1/80 of the total sill), one large (5 times), the others 1/10, 3/20, ...
\* With a variable V the model carries no nugget effect and every value is above the floor EpsNugget (1/100 of the
\* total sill, default of SPDEParam) under which the code raises the variances: the variance of datum i is V_i in every
\* entry point, and the system can be assembled from the public parts Q, A and the V values alone.
EpsNuggetInv == 100
VerrFrac(c) ==     \* fractions <<num, den>> of the total sill
  IF c.verr = "const" THEN <<>>
  ELSE [i \in 1..Len(DataPts(c)) |->
          IF c.verr = "distinct" THEN <<i + 1, 20>>
          ELSE IF i = 1 THEN <<1, 80>> ELSE IF i = 2 THEN <<5, 1>> ELSE <<i - 1, 20>>]

-----------------------------------------------------------------------------
(* Test vectors (integers) and the laws they instantiate                    *)

Vec1(n) == [i \in 1..n |-> ((3 * i + 1) % 7) - 3]
Vec2(n) == [i \in 1..n |-> ((5 * i + 2) % 4) - 1]
LinCoefs == << <<2, -3>>, <<1, 1>>, <<-1, 4>> >>
\* Law Linear(Op):       Op(a v + b w) = a Op(v) + b Op(w)        for (a, b) in LinCoefs, v = Vec1, w = Vec2
\* Law BasisExpansion:   Op(v) = sum_i v[i] Op(e_i)
\* hence equality of two linear maps on the canonical basis (OpEqualsMatrix) is equality on every vector.
LinComb(a, v, b, w) == [i \in DOMAIN v |-> a * v[i] + b * w[i]]

-----------------------------------------------------------------------------
(* Proof obligations.  rel = "le": measure.err <= tol * measure.ref ; "pos": measure.value > 0 ;                 *)
(* "true": measure.value = 1.  scale "cg": the tolerance is Safety times the bound of the stopping rule, which  *)
(* the harness evaluates from eps and the right-hand side (reported next to the measure).                        *)

\* obligations whose measure needs several Chebyshev fits (2^20-point FFT each): executed on one configuration out of HeavyEvery
HeavyNames == {"CholEqualsCG.LogDetOp", "CholEqualsCG.LogLikelihood", "CholEqualsCG.LogLikelihoodEntryPoints", "LogDetStochastic.Q"}
O(name, clause, rel, tol, what) == [name |-> name, clause |-> clause, rel |-> rel, tol |-> tol, what |-> what, heavy |-> name \in HeavyNames]
Cg == T(Safety, 0)

Obligations(c) == {
  \* ---- shift operator
  O("ShiftOp.ApplyEqualsAssembled", "ShiftOp", "le", TolSameMap, "ShiftOpCs::evalDirect(e_i) = column i of getS(), relative to max|S e_i|"),
  O("ShiftOp.SSymmetric", "ShiftOp", "le", TolSymmetric, "S (scaled by TildeC^-1/2 on both sides, as documented) is symmetric"),
  O("ShiftOp.LambdaPositive", "ShiftOp", "pos", T(0, 0), "every Lambda_i > 0"),
  O("ShiftOp.TildeCPositive", "ShiftOp", "pos", T(0, 0), "every TildeC_i > 0"),
  O("ShiftOp.Linear", "ShiftOp", "le", TolSameMap, "S(a v + b w) = a S v + b S w"),
  \* ---- precision operator: matrix-free versus assembled
  O("OpEqualsMatrix.Basis", "OpEqualsMatrix", "le", TolSameMap, "PrecisionOp::evalDirect(e_i) = column i of PrecisionOpCs::getQ(), relative to max|Q e_i|"),
  O("OpEqualsMatrix.CsApply", "OpEqualsMatrix", "le", TolSameMap, "PrecisionOpCs::evalDirect(e_i) = column i of getQ()"),
  O("OpEqualsMatrix.Vectors", "OpEqualsMatrix", "le", TolSameMap, "both forms on the integer vectors Vec1, Vec2 and their combinations"),
  O("OpEqualsMatrix.Linear", "OpEqualsMatrix", "le", TolSameMap, "law Linear for the matrix-free form"),
  O("OpEqualsMatrix.BasisExpansion", "OpEqualsMatrix", "le", TolSameMap, "law BasisExpansion for the matrix-free form"),
  O("OpEqualsMatrix.FromShiftOp", "OpEqualsMatrix", "le", TolSameMap, "the same two forms built from a given ShiftOpCs (constructor (shiftop, cova))"),
  O("OpEqualsMatrix.AddToDest", "OpEqualsMatrix", "le", TolSameMap, "ALinearOp::addToDest adds Q x to the destination in both forms"),
  O("OpEqualsMatrix.EvalPower", "OpEqualsMatrix", "le", TolSameMap, "PrecisionOp::evalPower(ONE) = evalDirect"),
  O("OpEqualsMatrix.Diagonal", "OpEqualsMatrix", "le", TolSameMap, "extractDiag() of both forms = diagonal of Q"),
  O("OpEqualsMatrix.SPDEOpMatrix", "OpEqualsMatrix", "le", TolSameMap, "SPDEOpMatrix::evalDirect(e_i) = column i of Q + A' N A assembled from its public parts"),
  O("OpEqualsMatrix.SPDEOp", "OpEqualsMatrix", "le", TolSameMap, "SPDEOp::evalDirect(e_i) (matrix-free Q + A' N A) = the same assembled matrix"),
  O("OpEqualsMatrix.MultiCond", "OpEqualsMatrix", "le", TolSameMap, "evalDirect(e_i) of PrecisionOpMultiConditional and PrecisionOpMultiConditionalCs = column i of Q + A' D^-1 A assembled from Q (PrecisionOpCs::getQ), A (ProjMatrix) and the data variances"),
  O("OpEqualsMatrix.MultiMatrix", "OpEqualsMatrix", "le", TolSameMap, "PrecisionOpMulti (matrix-free) = PrecisionOpMultiMatrix::getQ() on the basis, for one variable and for two correlated variables (sills 2, 1/2, 1/2, 1)"),
  \* ---- symmetric positive definite
  O("Symmetric.Q", "Symmetric", "le", TolSymmetric, "max |Q_ij - Q_ji| relative to max |Q_ij|"),
  O("Symmetric.Op", "Symmetric", "le", TolSameMap, "e_j' Op e_i = e_i' Op e_j for the matrix-free form"),
  O("PositiveDefinite.Cholesky", "PositiveDefinite", "true", T(0, 0), "CholeskySparse(Q) is ready and its log-determinant is finite"),
  O("PositiveDefinite.Quadratic", "PositiveDefinite", "pos", T(0, 0), "x'Qx > 0 for every e_i and e_i +/- e_j, assembled and matrix-free"),
  \* ---- every linear solve satisfies its system
  O("SolveResidual.PrecisionOpCs", "SolveResidual", "le", TolDirectSolve, "PrecisionOpCs::evalInverse (Cholesky): backward error"),
  O("SolveResidual.Rhs", "SolveResidual", "le", TolSameMap, "computeRhs(z) = A' z / s2, relative to its largest entry"),
  O("SolveResidual.MultiCondCs", "SolveResidual", "le", TolDirectSolve, "PrecisionOpMultiConditionalCs::evalInverse (Cholesky): backward error against Q + A' D^-1 A assembled independently from its public parts (Q from PrecisionOpCs::getQ, A from the ProjMatrix, D from the nugget or the V values)"),
  O("SolveResidual.MultiCondCG", "SolveResidual", "le", Cg, "PrecisionOpMultiConditional::evalInverse (own CG) for every eps of CgEpsSet x restart period of CgRestarts x preconditioner off / Jacobi: |Ax-b| <= Safety sqrt(eps sum|b_i|) (x sqrt(max A_ii) with the preconditioner)"),
  O("SolveResidual.MultiCondCGvsAssembled", "SolveResidual", "le", Cg, "the same solution against the assembled matrix Q + A'A/s2"),
  O("SolveResidual.EigenCG", "SolveResidual", "le", Cg, "LinearOpCGSolver on SPDEOp for every tol of EigenTolSet: |Ax-b| <= Safety tol |b|"),
  O("SolveResidual.SPDEOpMatrix", "SolveResidual", "le", TolDirectSolve, "SPDEOpMatrix::kriging (Cholesky): backward error"),
  \* ---- Cholesky versus conjugate gradient
  O("CholEqualsCG.MultiCond", "CholEqualsCG", "le", Cg, "solutions of the two multi-conditional operators: |x_chol - x_cg| <= Safety sqrt(eps sum|b_i|) / lambda_min"),
  O("CholEqualsCG.KrigingSPDE", "CholEqualsCG", "le", Cg, "SPDE(useCholesky = 1 / 0).compute and krigingSPDE, estimates at the targets: the two modes against each other and each against the solution of the independently assembled system (default eps of the class)"),
  O("CholEqualsCG.Quadratic", "CholEqualsCG", "le", Cg, "SPDE::computeQuad, the quadratic term of the log-likelihood: Safety |rhs| sqrt(eps sum|b_i|) / lambda_min"),
  O("CholEqualsCG.KrigingSPDENew", "CholEqualsCG", "le", Cg, "krigingSPDENew(useCholesky = 1 / 0), against each other and against the assembled system: Safety tol |rhs| / lambda_min, tol = EigenTolKrigingSPDENew"),
  O("CholEqualsCG.SPDEOp", "CholEqualsCG", "le", Cg, "SPDEOpMatrix::kriging versus SPDEOp::kriging (Eigen CG) for every tol of EigenTolSet"),
  \* ---- inverse of the covariance of the data, quadratic form, drift coefficients: against the dense Sigma assembled
  \* ---- independently (Q_k from PrecisionOpCs::getQ, A from the ProjMatrix, D from the nugget or the V values)
  O("InvCov.Cholesky", "SolveResidual", "le", T(1, -8), "PrecisionOpMultiConditionalCs::evalInvCov(x) = Sigma^-1 x, relative to |D^-1 x| (the size of the terms of the Woodbury form)"),
  O("InvCov.CG", "SolveResidual", "le", Cg, "PrecisionOpMultiConditional::evalInvCov(x): |y - Sigma^-1 x| <= Safety |D^-1 A|_F sqrt(eps sum|b_i|) / lambda_min"),
  O("InvCov.QuadraticCholesky", "SolveResidual", "le", T(1, -8), "computeQuadratic(x) = x' Sigma^-1 x, relative to x' D^-1 x"),
  O("InvCov.QuadraticCG", "SolveResidual", "le", Cg, "computeQuadratic(x) by CG: |x| times the bound of InvCov.CG"),
  O("Drift.CoeffsCholesky", "SolveResidual", "le", T(1, -7), "computeCoeffs / SPDE::getCoeffs (Cholesky) = generalised least squares coefficients, relative to their norm"),
  O("Drift.CoeffsCG", "SolveResidual", "le", Cg, "the same by CG: |G^-1| sqrt(p) (|z| + |X|_F |beta|) times the bound of InvCov.CG, G = X' Sigma^-1 X"),
  O("CholEqualsCG.LogDetOp", "CholEqualsCG", "le", T(1, -6), "log det (Q + A'A/s2): computeLogDetOp of the two multi-conditional operators (the matrix-free one is a Monte-Carlo estimate: see LogDetStochastic)"),
  O("CholEqualsCG.LogLikelihood", "CholEqualsCG", "le", T(1, -6), "SPDE::computeLogLikelihood in the two modes"),
  O("CholEqualsCG.LogLikelihoodEntryPoints", "CholEqualsCG", "le", TolSameMap, "logLikelihoodSPDE(useCholesky = 1) = SPDE(useCholesky = 1).computeLogLikelihood (both by Cholesky)")
}

\* Not asserted at the solver tolerance, because the code does not compute them by a solve: the matrix-free log-determinants are
\* Hutchinson estimates of polynomial approximations.  They are bound statistically: |mean - exact| <= 8 standard errors + bias.
StochasticObligations(c) == {
  O("LogDetStochastic.Q", "CholEqualsCG", "le", T(8, 0), "PrecisionOp::getLogDeterminant(1) repeated, against the Cholesky value: |mean - exact| <= 8 stderr + 1e-3 n")
}

\* obligations that exist only with a drift
NeedsDrift(name) == name \in {"Drift.CoeffsCholesky", "Drift.CoeffsCG"}
Clauses == {"ShiftOp", "OpEqualsMatrix", "Symmetric", "PositiveDefinite", "SolveResidual", "CholEqualsCG"}
Covered(c) == /\ \A cl \in Clauses : \E o \in Obligations(c) : o.clause = cl
              /\ \A o \in Obligations(c) \cup StochasticObligations(c) :
                   /\ o.rel \in {"le", "pos", "true"}
                   /\ o.rel = "le" => o.tol.m > 0
                   /\ o.clause \in Clauses
              /\ \A o1, o2 \in Obligations(c) : o1.name = o2.name => o1 = o2
              /\ Safety >= 100
              /\ Len(DataPts(c)) >= (1 + c.nd) + 2
              /\ c.verr # "const" =>        \* the variances differ between data and stay above the floor
                    /\ Len(VerrFrac(c)) = Len(DataPts(c))
                    /\ \A i, j \in DOMAIN VerrFrac(c) : i # j => VerrFrac(c)[i][1] * VerrFrac(c)[j][2] # VerrFrac(c)[j][1] * VerrFrac(c)[i][2]
                    /\ \A i \in DOMAIN VerrFrac(c) : VerrFrac(c)[i][1] * EpsNuggetInv > VerrFrac(c)[i][2]
              /\ \A i \in DOMAIN DataPts(c) : \A k \in 1..c.nd : DataPts(c)[i][k] >= 0

ConfigCase(c) ==
  [k |-> "config", c |-> c, n |-> NApices(c), nu2 |-> c.alpha2 - c.nd, ranges |-> RangeCells(c), anisoang |-> AnisoAngleCode(c),
   data |-> DataPts(c), z |-> DataVals(c), nuggetinv |-> NuggetInv(c), verrfrac |-> VerrFrac(c), struct2 |-> Struct2(c), nu2b |-> Struct2(c).alpha2 - c.nd, driftorder |-> DriftOrder(c),
   v1 |-> Vec1(NApices(c)), v2 |-> Vec2(NApices(c)), lincoefs |-> LinCoefs,
   cgeps |-> CgEpsDefault, cgepsset |-> CgEpsSet, cgrestarts |-> CgRestarts, cgnitermax |-> CgNIterMax, eigentolset |-> EigenTolSet,
   eigentolnew |-> EigenTolKrigingSPDENew, safety |-> Safety, heavyevery |-> HeavyEvery]

-----------------------------------------------------------------------------
(* Exact part: polynomials of a diagonal operator.                          *)
(* A case = coefficients c[0..deg], diagonal d (integers), vector x          *)
(* (integers).  ClassicalPolynomial: P(t) = sum_j c[j] t^j; expected         *)
(* y[i] = P(d[i]) x[i], an integer.  Chebychev on [a, b] = [-2, 2]:          *)
(* P(t) = sum_j c[j] T_j(t/2); 2^deg T_j(t/2) is an integer for integer t.   *)

CONSTANTS PolyCoefs,      \* set of coefficient tuples
          PolyDiags       \* set of (diagonal, vector) pairs of equal length

Pow(t, j) == LET F[k \in 0..j] == IF k = 0 THEN 1 ELSE t * F[k - 1] IN F[j]
PolyAt(cf, t) == LET n == Len(cf)
                     F[k \in 0..n] == IF k = 0 THEN 0 ELSE F[k - 1] + cf[k] * Pow(t, k - 1) IN F[n]
\* Horner, as ClassicalPolynomial::eval
Horner(cf, t) == LET n == Len(cf)
                     F[k \in 1..n] == IF k = 1 THEN cf[n] ELSE F[k - 1] * t + cf[n - k + 1] IN F[n]
\* S[j] = 2^j T_j(t/2):  S[0] = 1, S[1] = t, S[j] = 2 t S[j-1] - 4 S[j-2]   (from T_j = 2 (t/2) T_{j-1} - T_{j-2})
ChebS(t, j) == LET F[k \in 0..j] == IF k = 0 THEN 1 ELSE IF k = 1 THEN t ELSE 2 * t * F[k - 1] - 4 * F[k - 2] IN F[j]
\* 2^(n-1) * sum_j cf[j+1] T_j(t/2)
ChebAt(cf, t) == LET n == Len(cf)
                     F[k \in 0..n] == IF k = 0 THEN 0 ELSE F[k - 1] + cf[k] * ChebS(t, k - 1) * Pow(2, n - k) IN F[n]

PolyCase(cf, dv) ==
  [k |-> "poly", coefs |-> cf, diag |-> dv[1], x |-> dv[2],
   classical |-> [i \in 1..Len(dv[1]) |-> PolyAt(cf, dv[1][i]) * dv[2][i]],
   scalar |-> [i \in 1..Len(dv[1]) |-> PolyAt(cf, dv[1][i])],
   cheb |-> [i \in 1..Len(dv[1]) |-> ChebAt(cf, dv[1][i]) * dv[2][i]],
   chebscalar |-> [i \in 1..Len(dv[1]) |-> ChebAt(cf, dv[1][i])],
   chebden |-> Pow(2, Len(cf) - 1)]
PolyCases == { PolyCase(cf, dv) : cf \in PolyCoefs, dv \in PolyDiags }

\* the two ways of evaluating a polynomial agree, the Chebyshev polynomials satisfy T_j(1) = 1, T_j(-1) = (-1)^j,
\* T_j(cos(pi/3)) = cos(j pi/3) in {1, 1/2, -1/2, -1}
PolyOk(p) ==
  /\ \A i \in DOMAIN p.diag : Horner(p.coefs, p.diag[i]) = PolyAt(p.coefs, p.diag[i])
  /\ \A j \in 0..6 : ChebS(2, j) = Pow(2, j) /\ ChebS(-2, j) = Pow(-2, j)
  /\ \A j \in 0..6 : ChebS(1, j) * 2 \in { Pow(2, j) * 2, Pow(2, j), -Pow(2, j), -Pow(2, j) * 2 }
  /\ Len(p.diag) = Len(p.x)

RECURSIVE SetToSeqByName(_)     \* any fixed order of a finite set
SetToSeqByName(S) == IF S = {} THEN <<>> ELSE LET x == CHOOSE y \in S : TRUE IN <<x>> \o SetToSeqByName(S \ {x})

CaseOk(cs) == CASE cs.k = "config" -> Covered(cs.c)
                [] cs.k = "poly" -> PolyOk(cs)
=============================================================================
