SPECIFICATION Spec
CONSTANTS
  MaxLen = 3
  Modes = {"SK", "UK", "BAYES", "COLCOK"}
INVARIANT FreshIntended
CONSTRAINT EmitScripts
CHECK_DEADLOCK FALSE
