--------------------------- MODULE MC_NeutralHist ---------------------------
(* C08 on the model, histories: a small state machine over TWO objects of the same class and width (classes with a    *)
(* Db part).  A step edits one of the objects (delete a column, add a column, delete + add = same width again) or      *)
(* WRITES one of them.  State: the abstract contents abs[i] (edited by A_Del / A_Add) and the transcription of the     *)
(* real objects con[i] (UID table, columns, locator lists; edited by C_Del / C_Add).                                    *)
(* LAW (invariant): in every reachable state, what the real writer collects from the object is its abstract content:   *)
(* the file written depends on the current content only -- not on the UIDs (history of the object), and, since the      *)
(* write step reads nothing but the object, not on what was written before.                                             *)
(* Every history of Depth steps that ends with a write is emitted (primitive calls + expected file of every write):     *)
(* harness nf_run replays it on the real library IN ONE PROCESS and the files written are compared.                     *)
EXTENDS NeutralFile, Json, IOUtils, SequencesExt

CONSTANT Depth
Picks == ndJsonDeserialize(IOEnv.PICKS)      \* [c, s, d, d2]: class, structure, digit vectors of the two objects

VARIABLES n, abs, con, log, depth, nadd
vars == <<n, abs, con, log, depth, nadd>>

Cls == Picks[n].c

\* columns that a step may delete: quick domains = the first and the last one, thorough = any
DelCols(i) == LET nc == abs[i].ncol IN
              IF nc = 0 THEN {} ELSE IF Level >= 2 \/ i = 2 THEN (IF i = 2 THEN {1} ELSE 1..nc) ELSE {1, nc}

WriteRec(i) == LET f == FileW(Cls, abs[i])
                   r == ReadF(Cls, f, "real")
               IN [op |-> "write", i |-> i, lines |-> f, o |-> abs[i], aged |-> C_Aged(con[i]),
                   rt |-> (r.ok /\ r.o = abs[i])]
DelRec(i, k) == [op |-> "del", i |-> i, k |-> k]
AddRec(i, nm, vals) == [op |-> "add", i |-> i, name |-> nm, vals |-> vals]

Write(i) == /\ log' = Append(log, WriteRec(i))
            /\ UNCHANGED <<abs, con, nadd>>
Del(i, k) == /\ abs' = [abs EXCEPT ![i] = A_Del(Cls, @, k)]
             /\ con' = [con EXCEPT ![i] = C_Del(@, k)]
             /\ log' = Append(log, DelRec(i, k))
             /\ UNCHANGED nadd
Add(i) == LET nm == HistName(nadd + 1)  vals == HistCol(nadd + 1, abs[i].nech) IN
          /\ abs' = [abs EXCEPT ![i] = A_Add(Cls, @, nm, vals)]
          /\ con' = [con EXCEPT ![i] = C_Add(@, nm, vals)]
          /\ log' = Append(log, AddRec(i, nm, vals))
          /\ nadd' = nadd + 1
\* delete + add: the width is what it was, the UIDs are not
Edit(i, k) == LET nm == HistName(nadd + 1)  vals == HistCol(nadd + 1, abs[i].nech) IN
              /\ abs' = [abs EXCEPT ![i] = A_Add(Cls, A_Del(Cls, @, k), nm, vals)]
              /\ con' = [con EXCEPT ![i] = C_Add(C_Del(@, k), nm, vals)]
              /\ log' = log \o <<DelRec(i, k), AddRec(i, nm, vals)>>
              /\ nadd' = nadd + 1

Init == /\ n \in 1..Len(Picks)
        /\ abs = <<Instance(Picks[n].c, Picks[n].s, Picks[n].d), Instance(Picks[n].c, Picks[n].s, Picks[n].d2)>>
        /\ con = <<C_New(abs[1]), C_New(abs[2])>>
        /\ log = <<>> /\ depth = 0 /\ nadd = 0

Next == /\ depth < Depth
        /\ depth' = depth + 1
        /\ n' = n
        /\ \/ \E i \in 1..2 : Write(i)
           \/ \E i \in 1..2 : \E k \in DelCols(i) : Edit(i, k)
           \/ \E k \in DelCols(1) : (Level >= 2 \/ k = abs[1].ncol) /\ Del(1, k)
           \/ Add(1)
           \/ Level >= 2 /\ Add(2)
Spec == Init /\ [][Next]_vars

\* the law, in every state, for both objects: content seen by the writer = abstract content (hence the same file)
Law == \A i \in 1..2 : /\ C_View(Cls, con[i]) = abs[i]
                       /\ FileW(Cls, C_View(Cls, con[i])) = FileW(Cls, abs[i])

\* state constraint, evaluated once per state: emits the complete histories that end with a write
Emit == \/ depth < Depth
        \/ log[Len(log)].op # "write"
        \/ PrintT(ToJson([base |-> n, c |-> Cls, o1 |-> Instance(Picks[n].c, Picks[n].s, Picks[n].d),
                          o2 |-> Instance(Picks[n].c, Picks[n].s, Picks[n].d2), steps |-> log]))
=============================================================================
