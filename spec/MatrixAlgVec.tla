---------------------------- MODULE MatrixAlgVec ----------------------------
(***************************************************************************)
(* C11, numeric vector class and vector helpers: the reductions and        *)
(* element-wise operations of VectorNumT<T> and VH:: as total functions on *)
(* integer sequences with an undefined value NA.  One case per input       *)
(* vector u (all sequences of length 0..MaxLen over Vals and NA) paired    *)
(* with a second vector w of the same length; every field of the case is   *)
(* the mathematically defined result of one helper.  Fields whose value is  *)
(* not determined by the documentation for that input (ties for the ranks   *)
(* of an extremum, empty selections, ...) are not emitted: def lists the    *)
(* determined ones.                                                         *)
(* Rationals are emitted as [n, d] pairs.                                   *)
(***************************************************************************)
EXTENDS Integers, Sequences, FiniteSets, TLC, Json, IOUtils, SequencesExt

CONSTANTS MaxLen
Vals == {-3, -1, 0, 2, 5}     \* negative, zero, positive, with |-3| > 2 so that the absolute extrema differ
NA == 999999

Abs(x) == IF x < 0 THEN -x ELSE x
Sum(n, F(_)) == LET S[k \in 0..n] == IF k = 0 THEN 0 ELSE S[k - 1] + F(k) IN S[n]
Prod(n, F(_)) == LET S[k \in 0..n] == IF k = 0 THEN 1 ELSE S[k - 1] * F(k) IN S[n]
SumSeq(s) == Sum(Len(s), LAMBDA k : s[k])
MaxOf(S) == CHOOSE x \in S : \A y \in S : y <= x
MinOf(S) == CHOOSE x \in S : \A y \in S : y >= x
Def(u) == SelectSeq(u, LAMBDA x : x # NA)
HasNA(u) == \E i \in DOMAIN u : u[i] = NA
Map(u, F(_)) == [i \in DOMAIN u |-> F(u[i])]
Map2(u, w, F(_, _)) == [i \in DOMAIN u |-> F(u[i], w[i])]
Rat(n, d) == <<n, d>>

\* insertion of x in an ascending sequence (after the equal elements)
RECURSIVE InsertAsc(_, _)
InsertAsc(s, x) == IF s = <<>> THEN <<x>> ELSE IF x < Head(s) THEN <<x>> \o s ELSE <<Head(s)>> \o InsertAsc(Tail(s), x)
RECURSIVE SortAsc(_)
SortAsc(s) == IF s = <<>> THEN <<>> ELSE InsertAsc(SortAsc(SubSeq(s, 1, Len(s) - 1)), s[Len(s)])
Rev(s) == [i \in 1..Len(s) |-> s[Len(s) + 1 - i]]
RECURSIVE Dedup(_)
Dedup(s) == IF Len(s) <= 1 THEN s ELSE IF s[1] = s[2] THEN Dedup(Tail(s)) ELSE <<s[1]>> \o Dedup(Tail(s))
\* stable ordering of the indices 0..n-1: position k holds the (0-based) index of the k-th smallest (largest)
\* element, equal elements in their original order
Before(u, asc, i, j) == IF u[i] = u[j] THEN i < j ELSE IF asc THEN u[i] < u[j] ELSE u[i] > u[j]
Order(u, asc) == [k \in 1..Len(u) |->
                   (CHOOSE i \in 1..Len(u) : Cardinality({j \in 1..Len(u) : j # i /\ Before(u, asc, j, i)}) = k - 1) - 1]
\* inverse permutation: rank of every element
RanksOf(u, asc) == LET o == Order(u, asc) IN [i \in 1..Len(u) |-> (CHOOSE k \in 1..Len(u) : o[k] = i - 1) - 1]
Prefix(u) == [i \in 1..Len(u) |-> Sum(i, LAMBDA k : u[k])]
NoTies(u) == \A i, j \in DOMAIN u : i # j => u[i] # u[j]
AdjNoTies(u) == \A i \in 1..(Len(u) - 1) : u[i] # u[i + 1]

\* second vector: same length, no NA, no zero, differs from u everywhere (so that "vec > aux" has no tie)
W(u) == [i \in DOMAIN u |-> LET c == (IF i % 2 = 1 THEN 2 ELSE -1) IN IF u[i] = c THEN c + 2 ELSE c]

Case(u) ==
  LET n == Len(u)
      d == Def(u)
      nd == Len(d)
      w == W(u)
      clean == ~HasNA(u)
      absd == Map(d, Abs)
      both == {i \in 1..n : u[i] # NA}
      above == {u[i] : i \in {k \in both : u[k] > w[k]}}        \* statistics "only when vec > aux"
      below == {u[i] : i \in {k \in both : u[k] < w[k]}}
      srt == SortAsc(d)
  IN
  [u |-> u, w |-> w, n |-> n, nd |-> nd, clean |-> clean,
   \* --- VectorNumT<double> / VectorNumT<int> (no NA handling in that class)
   sum |-> IF clean THEN SumSeq(u) ELSE 0,
   mini |-> IF clean /\ n > 0 THEN MinOf(Range(u)) ELSE 0,
   maxi |-> IF clean /\ n > 0 THEN MaxOf(Range(u)) ELSE 0,
   mean |-> IF clean /\ n > 0 THEN Rat(SumSeq(u), n) ELSE Rat(0, 1),
   norm2 |-> IF clean THEN Sum(n, LAMBDA k : u[k] * u[k]) ELSE 0,
   dot |-> IF clean THEN Sum(n, LAMBDA k : u[k] * w[k]) ELSE 0,
   plus |-> IF clean THEN Map2(u, w, LAMBDA a, b : a + b) ELSE <<>>,
   minus |-> IF clean THEN Map2(u, w, LAMBDA a, b : a - b) ELSE <<>>,         \* u - w
   wminusu |-> IF clean THEN Map2(u, w, LAMBDA a, b : b - a) ELSE <<>>,       \* w - u
   times |-> IF clean THEN Map2(u, w, LAMBDA a, b : a * b) ELSE <<>>,
   plus3 |-> IF clean THEN Map(u, LAMBDA a : a + 3) ELSE <<>>,
   minus3 |-> IF clean THEN Map(u, LAMBDA a : a - 3) ELSE <<>>,
   times2 |-> IF clean THEN Map(u, LAMBDA a : a * 2) ELSE <<>>,
   timesm3 |-> IF clean THEN Map(u, LAMBDA a : a * (-3)) ELSE <<>>,
   square |-> IF clean THEN Map(u, LAMBDA a : a * a) ELSE <<>>,
   lincomb |-> IF clean THEN Map2(u, w, LAMBDA a, b : 2 * a - 3 * b) ELSE <<>>,
   cumulate |-> IF clean THEN Map2(u, w, LAMBDA a, b : a + 2 * b + 1) ELSE <<>>,   \* a += 2 * b + 1
   prefix |-> IF clean THEN Prefix(u) ELSE <<>>,
   prefix0 |-> IF clean THEN <<0>> \o Prefix(u) ELSE <<>>,
   concat |-> u \o w,
   reverse |-> Rev(u),
   l1 |-> IF clean THEN SumSeq(Map(u, Abs)) ELSE 0,
   linf |-> IF clean /\ n > 0 THEN MaxOf(Range(Map(u, Abs))) ELSE 0,
   dist2 |-> IF clean THEN Sum(n, LAMBDA k : (u[k] - w[k]) * (u[k] - w[k])) ELSE 0,
   product |-> IF clean /\ n > 0 THEN Prod(n, LAMBDA k : u[k]) ELSE 0,
   cross |-> IF clean /\ n = 3 THEN <<u[2] * w[3] - u[3] * w[2], u[3] * w[1] - u[1] * w[3], u[1] * w[2] - u[2] * w[1]>> ELSE <<>>,
   constant |-> clean /\ n > 0 /\ Cardinality(Range(u)) = 1,
   equalw |-> u = w, isempty |-> n = 0,
   \* --- VH:: helpers which skip the undefined values
   ndef |-> nd, nundef |-> n - nd, hasna |-> HasNA(u),
   dmin |-> IF nd > 0 THEN MinOf(Range(d)) ELSE 0,
   dmax |-> IF nd > 0 THEN MaxOf(Range(d)) ELSE 0,
   dminabs |-> IF nd > 0 THEN MinOf(Range(absd)) ELSE 0,
   dmaxabs |-> IF nd > 0 THEN MaxOf(Range(absd)) ELSE 0,
   hasabove |-> above # {}, hasbelow |-> below # {},
   maxabove |-> IF above # {} THEN MaxOf(above) ELSE 0, minabove |-> IF above # {} THEN MinOf(above) ELSE 0,
   maxbelow |-> IF below # {} THEN MaxOf(below) ELSE 0, minbelow |-> IF below # {} THEN MinOf(below) ELSE 0,
   dsum |-> SumSeq(d),
   dmean |-> IF nd > 0 THEN Rat(SumSeq(d), nd) ELSE Rat(0, 1),
   \* variance: sum of squares / n - mean^2  (scaled by n)  or  (sum of squares - n mean^2) / (n - 1)
   varn |-> IF nd > 1 THEN Rat(nd * SumSeq(Map(d, LAMBDA a : a * a)) - SumSeq(d) * SumSeq(d), nd * nd) ELSE Rat(0, 1),
   var1 |-> IF nd > 1 THEN Rat(nd * SumSeq(Map(d, LAMBDA a : a * a)) - SumSeq(d) * SumSeq(d), nd * (nd - 1)) ELSE Rat(0, 1),
   median |-> IF nd = 0 THEN Rat(0, 1)
              ELSE IF nd % 2 = 1 THEN Rat(srt[(nd \div 2) + 1], 1) ELSE Rat(srt[nd \div 2] + srt[(nd \div 2) + 1], 2),
   defined |-> d,
   filled |-> Map(u, LAMBDA a : IF a = NA THEN 7 ELSE a),
   vvmax |-> IF clean /\ n > 0 THEN MaxOf(Range(u) \cup Range(w)) ELSE 0,
   vvmin |-> IF clean /\ n > 0 THEN MinOf(Range(u) \cup Range(w)) ELSE 0,
   \* --- sorting and ranking (defined values only: NA is a very large number for the library, it sorts last)
   sortasc |-> IF clean THEN SortAsc(u) ELSE <<>>,
   sortdesc |-> IF clean THEN Rev(SortAsc(u)) ELSE <<>>,
   uniq |-> IF clean THEN Dedup(SortAsc(u)) ELSE <<>>,
   orderasc |-> IF clean THEN Order(u, TRUE) ELSE <<>>,
   orderdesc |-> IF clean THEN Order(u, FALSE) ELSE <<>>,
   ranksasc |-> IF clean THEN RanksOf(u, TRUE) ELSE <<>>,
   reordered |-> IF clean THEN [k \in 1..n |-> u[Order(u, TRUE)[k] + 1]] ELSE <<>>,
   sortedasc |-> clean /\ \A i \in 1..(n - 1) : u[i] < u[i + 1],
   sorteddesc |-> clean /\ \A i \in 1..(n - 1) : u[i] > u[i + 1],
   adjnoties |-> AdjNoTies(u),
   wheremin |-> IF nd > 0 /\ Cardinality({i \in both : u[i] = MinOf(Range(d))}) = 1
                THEN (CHOOSE i \in both : u[i] = MinOf(Range(d))) - 1 ELSE -2,
   wheremax |-> IF nd > 0 /\ Cardinality({i \in both : u[i] = MaxOf(Range(d))}) = 1
                THEN (CHOOSE i \in both : u[i] = MaxOf(Range(d))) - 1 ELSE -2,
   where2 |-> IF \E i \in 1..n : u[i] = 2 THEN (CHOOSE i \in 1..n : u[i] = 2 /\ \A j \in 1..(i - 1) : u[j] # 2) - 1 ELSE -1,
   inlist2 |-> \E i \in 1..n : u[i] = 2,
   \* --- index selections (0-based indices)
   dropfirst |-> IF n > 0 THEN Tail(u) ELSE <<>>,                      \* reduceOne(u, 0)
   droplast2 |-> IF n >= 2 THEN SubSeq(u, 1, n - 2) ELSE <<>>,          \* reduce(u, {n-1, n-2})
   keeprev |-> IF n >= 2 THEN <<u[n], u[1]>> ELSE <<>>,                \* compress / sample(u, {n-1, 0})
   \* filter(u, vmin = 0, vmax = 3): distinct values in [0, 3[, ascending / descending
   filterasc |-> IF clean THEN SelectSeq(Dedup(SortAsc(u)), LAMBDA a : a >= 0 /\ a < 3) ELSE <<>>,
   filterdesc |-> IF clean THEN Rev(SelectSeq(Dedup(SortAsc(u)), LAMBDA a : a >= 0 /\ a < 3)) ELSE <<>>,
   \* complement of the (sorted, distinct) non-negative values of u within 0..4
   complin |-> IF clean THEN SelectSeq(<<0, 1, 2, 3, 4>>, LAMBDA a : a \notin Range(u)) ELSE <<>>]

RECURSIVE SeqsOfLen(_)
SeqsOfLen(k) == IF k = 0 THEN {<<>>} ELSE {Append(s, x) : s \in SeqsOfLen(k - 1), x \in Vals \cup {NA}}
Inputs == UNION {SeqsOfLen(k) : k \in 0..MaxLen}
Cases == SetToSeq({Case(u) : u \in Inputs})

\* integer sequences: sequence(number, ideb, step) and sequence(from, to, step)
SeqCases == SetToSeq({[number |-> k, ideb |-> a, step |-> s, seq |-> [i \in 1..k |-> a + (i - 1) * s],
                       upto |-> [i \in 1..(IF s > 0 THEN k ELSE 0) |-> a + (i - 1) * s],
                       last |-> a + (k - 1) * s]
                      : k \in 0..4, a \in {0, -2, 3}, s \in {1, 2, -1}})

\* guards of the specification itself
ASSUME \A c \in Range(Cases) :
  /\ c.clean => ( /\ SumSeq(c.sortasc) = c.sum /\ Len(c.sortasc) = c.n
                  /\ \A i \in 1..(c.n - 1) : c.sortasc[i] <= c.sortasc[i + 1]
                  /\ Range(c.orderasc) = 0..(c.n - 1) /\ Range(c.orderdesc) = 0..(c.n - 1)
                  /\ c.reordered = c.sortasc
                  /\ \A i \in 1..c.n : c.orderasc[c.ranksasc[i] + 1] = i - 1
                  /\ c.plus = [i \in 1..c.n |-> c.minus[i] + 2 * c.w[i]] )
  /\ c.ndef + c.nundef = c.n
  /\ c.ndef > 0 => c.dmin <= c.dmax /\ c.dminabs >= 0

ASSUME JsonSerialize(IOEnv.OUT, [cases |-> Cases, seqs |-> SeqCases, na |-> NA])
ASSUME PrintT(<<"CASES", Len(Cases), Len(SeqCases)>>)
VARIABLE z
Spec == z = 0 /\ [][UNCHANGED z]_z
=============================================================================
