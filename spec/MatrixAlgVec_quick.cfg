SPECIFICATION Spec
CONSTANTS
  MaxLen = 3
