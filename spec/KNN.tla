-------------------------------- MODULE KNN --------------------------------
(***************************************************************************)
(* Property C06, second half: the k-nearest-neighbour queries of the ball   *)
(* tree return exactly the k closest points in increasing distance order.   *)
(*                                                                         *)
(* Points lie on a small integer lattice of dimension D (coordinates are    *)
(* multiples of Step in 0..Step*(Side-1)), the query point has any integer  *)
(* coordinates in -QMargin..Step*(Side-1)+QMargin.  Distances are compared exactly: squared         *)
(* Euclidean distance and Manhattan distance are integers.  A configuration *)
(* with two equal distances to the query is outside the property (ties      *)
(* excluded); it is decided separately for each metric.                     *)
(*                                                                         *)
(* Definition: for every k <= n the answer is the sequence of the k first   *)
(* elements of the points sorted by increasing distance (Ordered).  The     *)
(* model checks that this sequence is the unique one satisfying the         *)
(* defining property and emits the cases; the real Ball / KNN are run on    *)
(* every case for every k and every leaf size by harness/neigh_run.cpp.     *)
(***************************************************************************)
EXTENDS Integers, Sequences, FiniteSets, TLC, Json

CONSTANTS D,        \* set of space dimensions, e.g. {1, 2}
          Side,     \* lattice points per axis
          Step,     \* lattice step
          QMargin,  \* the coordinates of the query point range over -QMargin..Step*(Side-1)+QMargin
          MinPts,   \* minimum and
          MaxPts,   \* maximum number of points
          Orders    \* number of orderings of each point set (lattice order or an arithmetic shuffle)

VARIABLES dim, pts, phase, kase
vars == <<dim, pts, phase, kase>>

Abs(x) == IF x < 0 THEN -x ELSE x
QLo == -QMargin
QHi == Step * (Side - 1) + QMargin
Lattice(d) == [1..d -> {Step * k : k \in 0..(Side - 1)}]
\* lexicographic rank of a lattice point (generation order of the subsets)
LexRank(p) == LET S[i \in 0..Len(p)] == IF i = 0 THEN 0 ELSE S[i - 1] * Side + (p[i] \div Step) IN S[Len(p)]

SqDist(p, q) == LET S[i \in 0..Len(p)] == IF i = 0 THEN 0 ELSE S[i - 1] + (p[i] - q[i]) * (p[i] - q[i]) IN S[Len(p)]
ManDist(p, q) == LET S[i \in 0..Len(p)] == IF i = 0 THEN 0 ELSE S[i - 1] + Abs(p[i] - q[i]) IN S[Len(p)]

TieFree(P, q, Dist(_, _)) == \A i, j \in 1..Len(P) : i # j => Dist(P[i], q) # Dist(P[j], q)

\* the points (1-based positions) sorted by increasing distance
Ordered(P, q, Dist(_, _)) == SortSeq([i \in 1..Len(P) |-> i], LAMBDA a, b : Dist(P[a], q) < Dist(P[b], q))

\* the defining property of the answer `ans` to the query (q, k)
IsKNearest(P, q, k, ans, Dist(_, _)) ==
  /\ Len(ans) = k
  /\ \A a, b \in 1..k : a < b => Dist(P[ans[a]], q) < Dist(P[ans[b]], q)           \* increasing, distinct
  /\ \A i \in 1..Len(P) : (\E a \in 1..k : ans[a] = i)
                          \/ (\A a \in 1..k : Dist(P[ans[a]], q) < Dist(P[i], q))     \* nothing closer left out

-----------------------------------------------------------------------------
Fact(n) == CASE n <= 1 -> 1 [] n = 2 -> 2 [] n = 3 -> 6 [] n = 4 -> 24 [] n = 5 -> 120 [] n = 6 -> 720 [] OTHER -> 5040
DropAt(s, k) == SubSeq(s, 1, k - 1) \o SubSeq(s, k + 1, Len(s))
RECURSIVE KthPerm(_, _)
KthPerm(els, k) == IF Len(els) = 0 THEN <<>>
                   ELSE LET f == Fact(Len(els) - 1)
                            q == k \div f
                        IN <<els[q + 1]>> \o KthPerm(DropAt(els, q + 1), k % f)

Init == dim \in D /\ pts = <<>> /\ phase = "build" /\ kase = <<>>

\* subsets of the lattice, each generated once (points added in increasing lexicographic rank)
AddPoint == /\ phase = "build" /\ Len(pts) < MaxPts
            /\ \E p \in Lattice(dim) :
                 /\ (Len(pts) > 0 => LexRank(p) > LexRank(pts[Len(pts)]))
                 /\ pts' = Append(pts, p)
            /\ UNCHANGED <<dim, phase, kase>>

MkCase(P, q) ==
  LET e2 == TieFree(P, q, SqDist)
      e1 == TieFree(P, q, ManDist)
  IN [ dim |-> dim, pts |-> P, q |-> q,
       euc |-> IF e2 THEN LET o == Ordered(P, q, SqDist) IN [ok |-> TRUE, order |-> o, d |-> [k \in 1..Len(o) |-> SqDist(P[o[k]], q)]]
               ELSE [ok |-> FALSE],
       man |-> IF e1 THEN LET o == Ordered(P, q, ManDist) IN [ok |-> TRUE, order |-> o, d |-> [k \in 1..Len(o) |-> ManDist(P[o[k]], q)]]
               ELSE [ok |-> FALSE] ]

Query == /\ phase = "build" /\ Len(pts) >= 1 /\ Len(pts) >= MinPts /\ phase' = "done"
         /\ \E q \in [1..dim -> QLo..QHi], o \in 0..(Orders - 1) :
              LET n == Len(pts)
                  h == o * 7 + LexRank(pts[n]) + 3 * n + (LET S[i \in 0..dim] == IF i = 0 THEN 0 ELSE S[i - 1] * 5 + q[i] - QLo IN S[dim])
                  P == IF (h + o) % 2 = 0 THEN pts ELSE KthPerm(pts, (h * 11 + o) % Fact(n))
              IN /\ (TieFree(P, q, SqDist) \/ TieFree(P, q, ManDist))
                 /\ kase' = MkCase(P, q)
         /\ UNCHANGED <<dim, pts>>

Next == AddPoint \/ Query
Spec == Init /\ [][Next]_vars

\* the sorted sequence is, for every k, an answer satisfying the defining property, and the
\* definition determines the answer uniquely (checked against every other arrangement of k points
\* when the point set is small)
Inv_Definition ==
  phase = "done" =>
    /\ kase.euc.ok => \A k \in 1..Len(kase.pts) :
                         IsKNearest(kase.pts, kase.q, k, SubSeq(kase.euc.order, 1, k), SqDist)
    /\ kase.man.ok => \A k \in 1..Len(kase.pts) :
                         IsKNearest(kase.pts, kase.q, k, SubSeq(kase.man.order, 1, k), ManDist)
Inv_Unique ==
  phase = "done" /\ kase.euc.ok /\ Len(kase.pts) <= 4 =>
    \A k \in 1..Len(kase.pts) : \A ans \in [1..k -> 1..Len(kase.pts)] :
       IsKNearest(kase.pts, kase.q, k, ans, SqDist) => ans = SubSeq(kase.euc.order, 1, k)

Inv_Emit == phase # "done" \/ PrintT(ToJson(kase))
=============================================================================
