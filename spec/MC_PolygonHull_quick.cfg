\* manual run:  cd spec && tlc -workers 4 -config MC_PolygonHull_quick.cfg MC_PolygonHull.tla
SPECIFICATION Spec
CONSTANTS
  G = 3
  MaxPts = 9
  MinPts = 3
INVARIANT Inv_Hull
CHECK_DEADLOCK FALSE
