SPECIFICATION Spec
INVARIANT AtomicIntended ExactIntended HonestIntended Terminates NoTempAfterSuccess
CONSTRAINT Emit
CHECK_DEADLOCK FALSE
