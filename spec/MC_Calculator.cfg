SPECIFICATION Spec
INVARIANT AtomicIntended ExactAll Terminates
CONSTRAINT Emit
CHECK_DEADLOCK FALSE
