SPECIFICATION Spec
CONSTANTS
  Types = {"x", "z", "sel"}
  MaxCols = 2
  MaxUid = 3
  MaxNech = 2
POSTCONDITION AllExamined
CHECK_DEADLOCK FALSE
