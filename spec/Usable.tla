------------------------------- MODULE Usable -------------------------------
(***************************************************************************)
(* Property C05 of gstlearn: masked or undefined samples never influence a  *)
(* result.                                                                  *)
(*                                                                         *)
(* A Db PATTERN is a sequence of sample statuses                            *)
(*   [ sel : "none" | "on" | "off" | "na" | "neg",   selection cell          *)
(*     c   : BOOLEAN,            coordinates defined                         *)
(*     z   : Seq(BOOLEAN),       value of each variable defined (NVar)       *)
(*     f   : BOOLEAN,            external drift defined (TRUE if no column)  *)
(*     v   : BOOLEAN ]           measurement error variance defined (idem)   *)
(* ("none" = the Db has no selection column at all).  The numeric content    *)
(* of a sample is abstracted by its identity (its rank in the pattern):      *)
(* an operation is modelled by the list of DATA <<sample, variable>> it      *)
(* consumes (and for per-target operations one list per target); the result  *)
(* is an uninterpreted function of that list, so two runs give the same      *)
(* result when they consume the same data in the same order.                 *)
(*                                                                         *)
(*  - Decl(op, S): the data the operation MAY use = the declarative side of  *)
(*    C05 ("usable" data, physically what Reduce(S) contains).               *)
(*  - Code(op, S): transcription of the filters that the gstlearn sources    *)
(*    apply, each at the place where the code applies it (selection test of  *)
(*    the neighbourhood search, FFFF tests of _flagDefine, getRanksActive,   *)
(*    pair loops, ball-tree searches, ...).                                  *)
(*  - the property on the model: Code(op, S) = Decl(op, S) = the image under *)
(*    Keep of Code(op, Reduce(S)), for every pattern S.  Where TLC refutes it *)
(*    the deviation must be listed in ModelDeviation (a design-level defect   *)
(*    found by TLC; each one is confirmed or not by the conformance runs).    *)
(*                                                                         *)
(* Sample and target coordinates are fixed lattice points (constants below)  *)
(* so that nearest-neighbour decisions and variogram lags are exact integer  *)
(* computations; the harness concretises the patterns on these very points.  *)
(***************************************************************************)
EXTENDS Integers, Sequences, FiniteSets, TLC

CONSTANTS MaxN,      \* maximal number of samples of a pattern
          NVar,      \* number of variables (1 or 2)
          SelDom,    \* domain of the selection cell: {"none"} or {"on","off"} (or with "na","neg")
          CDom,      \* domain of "coordinates defined": {TRUE} or BOOLEAN
          FDom,      \* {TRUE} (no external drift column) or BOOLEAN
          VDom,      \* {TRUE} (no measurement error column) or BOOLEAN
          HasF, HasV \* the Db carries an external drift / a measurement error variance column

Vars == 1..NVar

\* fixed geometry (lattice): samples 1..4, targets 1..5
SX == <<1, 4, 2, 6>>
SY == <<1, 2, 5, 4>>
TX == <<3, 0, 7, 7, 0>>
TY == <<3, 0, 0, 6, 6>>
NTarget == 5
NMaxi == 2           \* moving neighbourhood: at most 2 samples, radius larger than the field
LagW == 2            \* variogram: omnidirectional, lag width 2, NLag lags, tolerance 1/2 lag
NLag == 4

Sq(x) == x * x
D2SS(i, j) == Sq(SX[i] - SX[j]) + Sq(SY[i] - SY[j])
D2ST(i, t) == Sq(SX[i] - TX[t]) + Sq(SY[i] - TY[t])

\* the geometry is free of ties and of lag-boundary distances (C05 says nothing about those)
ASSUME \A t \in 1..NTarget : \A i, j \in 1..4 : i # j => D2ST(i, t) # D2ST(j, t)
ASSUME \A i, j \in 1..4 : i # j => \A k \in 0..NLag : 4 * D2SS(i, j) # Sq((2 * k + 1) * LagW)
ASSUME \A i \in 1..4 : \A t \in 1..NTarget : D2ST(i, t) > 0

Status == [sel : SelDom, c : CDom, z : [Vars -> BOOLEAN], f : FDom, v : VDom]

-----------------------------------------------------------------------------
(* Helpers on sequences                                                     *)

RECURSIVE SelectIdx(_, _, _)
\* increasing sequence of the indices k..n satisfying P
SelectIdx(k, n, P(_)) == IF k > n THEN <<>>
                         ELSE IF P(k) THEN <<k>> \o SelectIdx(k + 1, n, P) ELSE SelectIdx(k + 1, n, P)
Idx(S, P(_)) == SelectIdx(1, Len(S), P)
Range(q) == {q[k] : k \in DOMAIN q}
RECURSIVE Flatten(_)
Flatten(qq) == IF qq = <<>> THEN <<>> ELSE Head(qq) \o Flatten(Tail(qq))
\* the elements of the set A of samples sorted by increasing distance to target t
RECURSIVE SortByDist(_, _)
SortByDist(A, t) == IF A = {} THEN <<>>
                    ELSE LET m == CHOOSE i \in A : \A j \in A : D2ST(i, t) <= D2ST(j, t)
                         IN <<m>> \o SortByDist(A \ {m}, t)
FirstK(q, k) == SubSeq(q, 1, IF Len(q) < k THEN Len(q) ELSE k)
SortAsc(A) == SelectIdx(1, 4, LAMBDA i : i \in A)
Lag(i, j) == CHOOSE k \in 0..(NLag + 2) : 4 * D2SS(i, j) < Sq((2 * k + 1) * LagW)
                                         /\ (k = 0 \/ 4 * D2SS(i, j) > Sq((2 * k - 1) * LagW))

-----------------------------------------------------------------------------
(* The three readings of the selection cell that coexist in Db.cpp           *)

HasSel(S) == Len(S) > 0 /\ S[1].sel # "none"
\* Db::getSelection / isActive: undefined -> masked, any non-zero value -> active
IsActive(s)     == s.sel \in {"none", "on", "neg"}
\* Db::getRanksActive: "value <= 0 -> skipped" (the undefined value 1.234e30 is positive)
RanksActive(s)  == s.sel \in {"none", "on", "na"}
\* Db::getSampleNumber(true): counts the non-zero cells
CountedActive(s) == s.sel \in {"none", "on", "na", "neg"}
\* what C05 calls switched off: the documented reading (getSelection) for the cells 0 / 1
SelOn(s) == s.sel \in {"none", "on"}
OddSel(S) == \E i \in DOMAIN S : S[i].sel \in {"na", "neg"}

AnyZ(s) == \E w \in Vars : s.z[w]

-----------------------------------------------------------------------------
(* Declarative side: usable data and Reduce                                  *)

\* needs: subset of {"c","f","v"} = the fields of a sample the operation reads besides the values
FieldsOk(s, needs) == /\ ("c" \in needs => s.c)
                      /\ ("f" \in needs /\ HasF => s.f)
                      /\ ("v" \in needs /\ HasV => s.v)
UsableSample(s, needs) == SelOn(s) /\ FieldsOk(s, needs) /\ AnyZ(s)
UsableDatum(s, w, needs) == SelOn(s) /\ FieldsOk(s, needs) /\ s.z[w]

\* Keep(S, needs): ranks (in S) of the samples of the physically reduced Db, in order
Keep(S, needs) == Idx(S, LAMBDA i : UsableSample(S[i], needs))
\* Reduce: the kept samples, without selection column, heterotopic pattern preserved
Reduce(S, needs) == LET kp == Keep(S, needs) IN [k \in 1..Len(kp) |-> [S[kp[k]] EXCEPT !.sel = "none"]]

\* data <<sample, variable>> in the order variable-major (the order of the kriging system and of
\* the covariance / drift matrices)
DataVM(S, P(_, _)) == Flatten([w \in Vars |-> [k \in DOMAIN Idx(S, LAMBDA i : P(i, w)) |->
                                                  <<Idx(S, LAMBDA i : P(i, w))[k], w>>]])
DeclData(S, needs) == DataVM(S, LAMBDA i, w : UsableDatum(S[i], w, needs))

-----------------------------------------------------------------------------
(* Transcriptions of the code, operation by operation                        *)

\* ANeigh::_discardUndefined (Db::isAllUndefined is misnamed: the sample is kept when some Z is defined)
NotAllUndef(s) == AnyZ(s)
\* KrigingSystem::_flagDefine on a neighbourhood nb (sequence of ranks): coordinates, value, external drifts
FlagDefine(S, nb) == Flatten([w \in Vars |->
                       LET q == SelectIdx(1, Len(nb), LAMBDA k : S[nb[k]].c /\ S[nb[k]].z[w] /\ (HasF => S[nb[k]].f))
                       IN [k \in DOMAIN q |-> <<nb[q[k]], w>>]])

\* NeighUnique::_unique
NbUnique(S) == Idx(S, LAMBDA i : IsActive(S[i]) /\ NotAllUndef(S[i]))
\* NeighMoving::_moving without ball tree: active, not all undefined, distance within the radius
\* (an undefined coordinate gives a distance of 1e30), sorted, first NMaxi
NbMovingCand(S) == {i \in DOMAIN S : IsActive(S[i]) /\ NotAllUndef(S[i]) /\ S[i].c}
NbMoving(S, t) == SortAsc(Range(FirstK(SortByDist(NbMovingCand(S), t), NMaxi)))
\* with the ball tree: the tree holds ALL samples (Ball::init(db, ..., useSel = false)), the NMaxi
\* nearest ones are candidates, and the isActive test is skipped on that path; a sample with an
\* undefined coordinate is at distance 1e30: it is returned only when fewer than NMaxi others exist,
\* and then rejected by the radius
BallKnn(S, t) == LET def == {i \in DOMAIN S : S[i].c}
                     und == {i \in DOMAIN S : ~S[i].c}
                 IN FirstK(SortByDist(def, t) \o SortAsc(und), NMaxi)
NbMovingBall(S, t) == SortAsc({i \in Range(BallKnn(S, t)) : NotAllUndef(S[i]) /\ S[i].c})

\* declared neighbourhoods
DeclNbAll(S, needs) == Keep(S, needs)
DeclNbMoving(S, t, needs) == SortAsc(Range(FirstK(SortByDist(Range(Keep(S, needs)), t), NMaxi)))

\* Db::getRanksActive(nbgh, item, useSel, useVerr) as used by evalCovMatrix*, evalDriftMatrix
RanksData(S, useVerr) == DataVM(S, LAMBDA i, w : RanksActive(S[i]) /\ S[i].z[w] /\ (useVerr /\ HasV => S[i].v))

\* statistics (Classical.cpp): isActive, then FFFF on the value (flagIso: on all the variables)
StatData(S, iso) == DataVM(S, LAMBDA i, w : IsActive(S[i]) /\ S[i].z[w] /\ (iso => \A u \in Vars : S[i].z[u]))
DeclStat(S, iso) == DataVM(S, LAMBDA i, w : SelOn(S[i]) /\ S[i].z[w] /\ (iso => \A u \in Vars : S[i].z[u]))

\* experimental variogram (Vario::_calculateGeneralSolution1 + _evaluate): pairs i<j, both active,
\* both values defined (variable w with itself), distance in a lag.  A pair with an undefined
\* coordinate has no lag (distance 1e30) -- transcribed as such.
PairsOf(S, w, P(_)) == {p \in (DOMAIN S) \X (DOMAIN S) : p[1] < p[2] /\ P(p[1]) /\ P(p[2])
                                                          /\ S[p[1]].z[w] /\ S[p[2]].z[w]
                                                          /\ S[p[1]].c /\ S[p[2]].c /\ Lag(p[1], p[2]) < NLag}
VarioPairs(S, w) == PairsOf(S, w, LAMBDA i : IsActive(S[i]))
DeclPairs(S, w)  == PairsOf(S, w, LAMBDA i : SelOn(S[i]))
SwOf(S, pairs) == [k \in 1..NLag |-> Cardinality({p \in pairs : Lag(p[1], p[2]) = k - 1})]

\* migrate point -> point (CalcMigrate::_expandPointToPoint): nearest ACTIVE sample, whatever its value;
\* with flag_ball: nearest sample of a tree holding all samples (no selection)
NearestOf(A, t) == IF A = {} THEN 0 ELSE SortByDist(A, t)[1]
MigrateSrc(S, t)     == NearestOf({i \in DOMAIN S : IsActive(S[i]) /\ S[i].c}, t)
MigrateBallSrc(S, t) == NearestOf({i \in DOMAIN S : S[i].c}, t)
\* declared: nearest usable sample for the migrated variable (variable 1)
DeclMigrateSrc(S, t) == NearestOf({i \in DOMAIN S : UsableDatum(S[i], 1, {"c"})}, t)

\* conditional turning bands: the band extents (_minmax) span every ACTIVE data sample, read
\* through its coordinates whether they are defined or not
SimBandSamples(S) == {i \in DOMAIN S : IsActive(S[i])}
SimExtentUndefined(S) == \E i \in SimBandSamples(S) : ~S[i].c

\* Db::createReduce: the rows returned by getRanksActive() without variable
CreateReduceRows(S) == Idx(S, LAMBDA i : RanksActive(S[i]))
DeclReduceRows(S)   == Idx(S, LAMBDA i : SelOn(S[i]))

-----------------------------------------------------------------------------
(* Catalogue: for every operation its declared and transcribed data          *)

Targets == 1..NTarget
KNeeds == IF HasF THEN {"c", "f"} ELSE {"c"}      \* what kriging reads of a sample

OpNames == <<"krig_u", "krig_m", "krig_mb", "neigh_u", "neigh_m", "neigh_mb", "xvalid_u", "xvalid_m",
             "vario", "stat", "stat_iso", "cov", "cov_sym", "drift", "simtub", "migrate", "migrate_ball",
             "reduce">>

DeclOf(op, S) ==
  CASE op \in {"krig_u", "xvalid_u", "simtub"} -> DeclData(S, KNeeds)
    [] op \in {"krig_m", "krig_mb", "xvalid_m"} ->
         [t \in Targets |-> LET nb == DeclNbMoving(S, t, KNeeds) IN
                              DataVM(S, LAMBDA i, w : i \in Range(nb) /\ UsableDatum(S[i], w, KNeeds))]
    [] op = "neigh_u" -> DeclNbAll(S, KNeeds)
    [] op \in {"neigh_m", "neigh_mb"} -> [t \in Targets |-> DeclNbMoving(S, t, KNeeds)]
    [] op = "vario" -> [w \in Vars |-> SwOf(S, DeclPairs(S, w))]
    [] op = "stat" -> DeclStat(S, FALSE)
    [] op = "stat_iso" -> DeclStat(S, TRUE)
    [] op = "cov" -> DeclData(S, {"c"})
    [] op = "cov_sym" -> DeclData(S, {"c", "v"})
    [] op = "drift" -> DeclData(S, {"c", "f", "v"})
    [] op = "migrate" -> [t \in Targets |-> DeclMigrateSrc(S, t)]
    [] op = "migrate_ball" -> [t \in Targets |-> DeclMigrateSrc(S, t)]
    [] op = "reduce" -> DeclReduceRows(S)

CodeOf(op, S) ==
  CASE op \in {"krig_u", "xvalid_u"} -> FlagDefine(S, NbUnique(S))
    [] op = "simtub" -> IF SimExtentUndefined(S) THEN <<<<0, 0>>>> ELSE FlagDefine(S, NbUnique(S))
    [] op \in {"krig_m", "xvalid_m"} -> [t \in Targets |-> FlagDefine(S, NbMoving(S, t))]
    [] op = "krig_mb" -> [t \in Targets |-> FlagDefine(S, NbMovingBall(S, t))]
    [] op = "neigh_u" -> NbUnique(S)
    [] op = "neigh_m" -> [t \in Targets |-> NbMoving(S, t)]
    [] op = "neigh_mb" -> [t \in Targets |-> NbMovingBall(S, t)]
    [] op = "vario" -> [w \in Vars |-> SwOf(S, VarioPairs(S, w))]
    [] op = "stat" -> StatData(S, FALSE)
    [] op = "stat_iso" -> StatData(S, TRUE)
    [] op = "cov" -> RanksData(S, FALSE)
    [] op = "cov_sym" -> RanksData(S, TRUE)
    [] op = "drift" -> RanksData(S, TRUE)
    [] op = "migrate" -> [t \in Targets |-> MigrateSrc(S, t)]
    [] op = "migrate_ball" -> [t \in Targets |-> MigrateBallSrc(S, t)]
    [] op = "reduce" -> CreateReduceRows(S)

\* the neighbourhood lists of an operation that only selects samples are compared as such; for the
\* kriging-like operations a sample of the neighbourhood that contributes no datum is immaterial
Agrees(op, S) == CodeOf(op, S) = DeclOf(op, S)

-----------------------------------------------------------------------------
(* Features of a pattern (used to class the cases and to state the deviations) *)

Feat(S) ==
  [ sel_off    |-> \E i \in DOMAIN S : S[i].sel = "off",
    coord_na   |-> \E i \in DOMAIN S : SelOn(S[i]) /\ ~S[i].c,                \* active sample without coordinates
    zall_na    |-> \E i \in DOMAIN S : SelOn(S[i]) /\ S[i].c /\ ~AnyZ(S[i]),  \* active sample without any value
    hetero     |-> \E i \in DOMAIN S : SelOn(S[i]) /\ AnyZ(S[i]) /\ \E w \in Vars : ~S[i].z[w],
    f_na       |-> HasF /\ \E i \in DOMAIN S : SelOn(S[i]) /\ ~S[i].f,
    v_na       |-> HasV /\ \E i \in DOMAIN S : SelOn(S[i]) /\ ~S[i].v,
    odd_sel    |-> OddSel(S),
    none_usable |-> Keep(S, {"c"}) = <<>>,
    all_usable |-> \A i \in DOMAIN S : UsableSample(S[i], {"c", "f", "v"}) /\ \A w \in Vars : S[i].z[w] ]

(***************************************************************************)
(* Deviations of the transcribed code from Reduce that TLC found (each was   *)
(* first reported by TLC as a violation of ModelImplementsReduce, then        *)
(* entered here with its mechanism).  The conformance runs decide whether     *)
(* the real library shows it (then it is a recorded finding of known/C05.json *)
(* or a VIOLATION).                                                           *)
(***************************************************************************)
ModelDeviation(op, S) ==
  LET ft == Feat(S) IN
  \/ ft.odd_sel                     \* the three readings of the selection cell disagree (dedicated category)
  \/ op \in {"krig_mb", "neigh_mb", "migrate_ball"} /\ (ft.sel_off \/ ft.coord_na \/ ft.zall_na \/ ft.f_na)
                                    \* ball tree built on all samples, selection test skipped
  \/ op \in {"cov", "cov_sym", "drift"} /\ (ft.coord_na \/ ft.f_na)
                                    \* getRanksActive tests neither coordinates nor external drift
  \/ op = "simtub" /\ ft.coord_na   \* band extents computed through undefined coordinates
  \/ op \in {"krig_m", "xvalid_m", "neigh_m"} /\ (ft.f_na \/ ft.hetero)
                                    \* samples dropped later by _flagDefine still fill the NMaxi slots
  \/ op = "neigh_u" /\ (ft.coord_na \/ ft.f_na)
                                    \* the unique neighbourhood lists them; _flagDefine drops them later
  \/ op = "migrate" /\ (ft.zall_na \/ ft.hetero)
                                    \* the nearest active sample wins even when its value is undefined

=============================================================================
