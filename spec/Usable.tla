------------------------------- MODULE Usable -------------------------------
(***************************************************************************)
(* Property C05 of gstlearn: masked or undefined samples never influence a  *)
(* result.                                                                  *)
(*                                                                         *)
(* A Db PATTERN is a sequence of sample statuses                            *)
(*   [ id  : 1..4,               identity of the sample (= which physical    *)
(*                               point / values it carries, see geometry)    *)
(*     sel : "none" | "on" | "off" | "na" | "neg",   selection cell          *)
(*     c   : BOOLEAN,            coordinates defined                         *)
(*     z   : [Vars -> BOOLEAN],  value of each variable defined              *)
(*     f   : BOOLEAN,            external drift defined (TRUE if no column)  *)
(*     v   : BOOLEAN ]           measurement error variance defined (idem)   *)
(* ("none" = the Db has no selection column at all).  The numeric content    *)
(* of a sample is abstracted by its identity: an operation is modelled by    *)
(* the list of DATA <<sample identity, variable>> it consumes (for the       *)
(* per-target operations one list per target); its result is an              *)
(* uninterpreted function of that list, so two runs give the same result     *)
(* when they consume the same data in the same order.                        *)
(*                                                                         *)
(*  - Decl(op, S): the data the operation MAY use: the declarative side of   *)
(*    C05 (the "usable" data = physically what Reduce(S) contains).          *)
(*  - Code(op, S): transcription of the filters that the gstlearn sources    *)
(*    apply, each at the place where the code applies it (selection test of  *)
(*    the neighbourhood search, FFFF tests of _flagDefine, getRanksActive,   *)
(*    pair loops, ball-tree searches, ...).                                  *)
(*  - C05 on the model:  Code(op, S) = Code(op, Reduce(S)) = Decl(op, S)      *)
(*    = Code(op, Perturb(S)) (unusable samples moved elsewhere)               *)
(*    (everything expressed in identities, which is what Expand does: row k  *)
(*    of a result on Reduce(S) is row Keep(S)[k] of the result on S).         *)
(*    Where TLC refutes it, the deviation must be listed in ModelDeviation    *)
(*    (a design-level defect found by TLC; the conformance runs confirm it    *)
(*    or not on the real library).                                            *)
(*                                                                         *)
(* Sample and target coordinates are fixed lattice points (constants below)  *)
(* so that nearest-neighbour decisions and variogram lags are exact integer  *)
(* computations; the harness concretises the patterns on these very points.  *)
(***************************************************************************)
EXTENDS Integers, Sequences, FiniteSets, TLC

CONSTANTS MaxN,      \* maximal number of samples of a pattern (<= 4)
          NVar,      \* number of variables (1 or 2)
          SelDom,    \* domain of the selection cell: {"none"}, {"on","off"} or {"on","off","na","neg"}
          CDom,      \* domain of "coordinates defined": {TRUE} or BOOLEAN
          FDom,      \* {TRUE} or BOOLEAN
          VDom,      \* {TRUE} or BOOLEAN
          HasF, HasV \* the Db carries an external drift / a measurement error variance column

Vars == 1..NVar
Ids == 1..4

\* fixed geometry (lattice): sample identities 1..4, targets 1..5
SX == <<1, 4, 2, 6>>
SY == <<1, 2, 5, 4>>
TX == <<3, 0, 7, 7, 0>>
TY == <<3, 0, 0, 6, 6>>
NTarget == 5
Targets == 1..NTarget
\* target grid (turning bands, migration point -> grid): 3 x 3 nodes, origin (0,0), mesh (GDX2/2, GDY2/2)
GNX == 3
GDX2 == 7
GDY2 == 6
Nodes == 1..(GNX * GNX)
NodeIX(g) == (g - 1) % GNX
NodeIY(g) == (g - 1) \div GNX
\* targets lying exactly ON the data: point targets 1..4 = the sample places, 5..8 = the corners of the field;
\* grid of CGNX x CGNY nodes, origin (0,0), mesh 1 (every sample place is a node)
CGNX == 8
CGNY == 7
ASSUME \A a \in Ids : SX[a] \in 0..(CGNX - 1) /\ SY[a] \in 0..(CGNY - 1)
NMaxi == 2           \* moving neighbourhood: at most 2 samples, radius larger than the field
LagW == 2            \* variogram: omnidirectional, lag width 2, NLag lags, tolerance 1/2 lag
NLag == 4

Sq(x) == x * x
D2SS(a, b) == Sq(SX[a] - SX[b]) + Sq(SY[a] - SY[b])
D2ST(a, t) == Sq(SX[a] - TX[t]) + Sq(SY[a] - TY[t])

\* squared distance (x4) between a sample and a grid node; the node whose (centred) cell holds the sample
D2SG(a, g) == Sq(2 * SX[a] - NodeIX(g) * GDX2) + Sq(2 * SY[a] - NodeIY(g) * GDY2)
CellOf(a) == CHOOSE g \in Nodes : \A h \in Nodes : D2SG(a, g) <= D2SG(a, h)
ASSUME \A a \in Ids : \A g, h \in Nodes : g # h /\ D2SG(a, g) <= D2SG(a, h) /\ g = CellOf(a) => D2SG(a, g) < D2SG(a, h)
ASSUME \A g \in Nodes : \A a, b \in Ids : a # b => D2SG(a, g) # D2SG(b, g)
ASSUME \A a, b \in Ids : a # b => CellOf(a) # CellOf(b)

\* the geometry is free of ties and of lag-boundary distances (C05 says nothing about those)
ASSUME \A t \in Targets : \A a, b \in Ids : a # b => D2ST(a, t) # D2ST(b, t)
ASSUME \A a, b \in Ids : a # b => \A k \in 0..NLag : 4 * D2SS(a, b) # Sq((2 * k + 1) * LagW)
ASSUME \A a \in Ids : \A t \in Targets : D2ST(a, t) > 0
ASSUME \A a, b \in Ids : a # b => 4 * D2SS(a, b) < Sq((2 * NLag + 1) * LagW)

\* pert: the sample sits at its PERTURBED place (+1/2, +1/2) -- only in the copies built by Perturb below (the
\* harness moves the unusable samples there in its perturbed Db)
Status == [id : Ids, sel : SelDom, c : CDom, z : [Vars -> BOOLEAN], f : FDom, v : VDom, pert : {FALSE}]
\* squared distance (x4) between a sample (status s) and target t
DTv(a, pa, t) == IF pa THEN Sq(2 * SX[a] + 1 - 2 * TX[t]) + Sq(2 * SY[a] + 1 - 2 * TY[t]) ELSE 4 * D2ST(a, t)
DT(s, t) == DTv(s.id, s.pert, t)
ASSUME \A t \in Targets : \A a, b \in Ids : \A pa, pb \in BOOLEAN : a # b => DTv(a, pa, t) # DTv(b, pb, t)

-----------------------------------------------------------------------------
(* Helpers on sequences                                                     *)

\* increasing sequence of the indices 1..n satisfying P
IdxN(n, P(_)) == LET F[i \in 0..n] == IF i = 0 THEN <<>> ELSE IF P(i) THEN Append(F[i - 1], i) ELSE F[i - 1]
                 IN F[n]
Idx(S, P(_)) == IdxN(Len(S), P)
Range(q) == {q[k] : k \in DOMAIN q}
RECURSIVE Flatten(_)
Flatten(qq) == IF qq = <<>> THEN <<>> ELSE Head(qq) \o Flatten(Tail(qq))
\* the positions of the set A (of positions of S) sorted by increasing distance to target t
RECURSIVE SortByDist(_, _, _)
SortByDist(S, A, t) == IF A = {} THEN <<>>
                       ELSE LET m == CHOOSE i \in A : \A j \in A : DT(S[i], t) <= DT(S[j], t)
                            IN <<m>> \o SortByDist(S, A \ {m}, t)
FirstK(q, k) == SubSeq(q, 1, IF Len(q) < k THEN Len(q) ELSE k)
SortAsc(A) == IdxN(4, LAMBDA i : i \in A)
Lag(a, b) == CHOOSE k \in 0..NLag : 4 * D2SS(a, b) < Sq((2 * k + 1) * LagW)
                                    /\ (k = 0 \/ 4 * D2SS(a, b) > Sq((2 * k - 1) * LagW))

-----------------------------------------------------------------------------
(* The readings of the selection cell that coexist in Db.cpp (a fourth one,   *)
(* "exactly 1", is IsOne below: Db::getColumn(useSel = TRUE))                 *)

\* Db::getSelection / isActive: undefined -> masked, any other non-zero value -> active
IsActive(s)     == s.sel \in {"none", "on", "neg"}
\* Db::getRanksActive: "value <= 0 -> skipped" (the undefined value 1.234e30 is positive)
RanksActive(s)  == s.sel \in {"none", "on", "na"}
\* Db::getSampleNumber(true): counts the non-zero cells
CountedActive(s) == s.sel \in {"none", "on", "na", "neg"}
\* what C05 calls "not switched off": the documented reading for the cells 0 / 1
SelOn(s) == s.sel \in {"none", "on"}
OddSel(S) == \E i \in DOMAIN S : S[i].sel \in {"na", "neg"}

AnyZ(s) == \E w \in Vars : s.z[w]

-----------------------------------------------------------------------------
(* Declarative side: usable data and Reduce                                  *)

\* needs: subset of {"c","f","v"} = the fields of a sample the operation reads besides the values
\* ("anyrow": the operation handles rows, not values: a row without any defined value is kept)
FieldsOk(s, needs) == /\ ("c" \in needs => s.c)
                      /\ ("f" \in needs /\ HasF => s.f)
                      /\ ("v" \in needs /\ HasV => s.v)
UsableSample(s, needs) == SelOn(s) /\ FieldsOk(s, needs) /\ ("anyrow" \in needs \/ AnyZ(s))
UsableDatum(s, w, needs) == SelOn(s) /\ FieldsOk(s, needs) /\ s.z[w]

\* Keep(S, needs): positions (in S) of the samples of the physically reduced Db, in order
Keep(S, needs) == Idx(S, LAMBDA i : UsableSample(S[i], needs))
\* Reduce: the kept samples, without selection column; a value undefined in one variable only
\* stays an undefined value of the kept sample (heterotopic pattern preserved)
Reduce(S, needs) == LET kp == Keep(S, needs) IN [k \in 1..Len(kp) |-> [S[kp[k]] EXCEPT !.sel = "none"]]

\* the masked Db where the content of the unusable samples is changed (metamorphic form): they sit elsewhere
Perturb(S, needs) == [i \in DOMAIN S |-> [S[i] EXCEPT !.pert = ~UsableSample(S[i], needs)]]

\* data <<position, variable>> in variable-major order (the order of the kriging system and of
\* the covariance / drift matrices)
DataVM(S, P(_, _)) == Flatten([w \in Vars |-> LET q == Idx(S, LAMBDA i : P(i, w)) IN [k \in DOMAIN q |-> <<q[k], w>>]])
DeclData(S, needs) == DataVM(S, LAMBDA i, w : UsableDatum(S[i], w, needs))

-----------------------------------------------------------------------------
(* Transcriptions of the code, operation by operation                        *)

\* ANeigh::_discardUndefined (Db::isAllUndefined is misnamed: the sample is kept when some Z is defined)
NotAllUndef(s) == AnyZ(s)
\* KrigingSystem::_flagDefine on a neighbourhood nb (sequence of positions): coordinates, value, external drifts
FlagDefine(S, nb) == Flatten([w \in Vars |->
                       LET q == IdxN(Len(nb), LAMBDA k : S[nb[k]].c /\ S[nb[k]].z[w] /\ (HasF => S[nb[k]].f))
                       IN [k \in DOMAIN q |-> <<nb[q[k]], w>>]])

\* cross-validation in unique neighbourhood (_estimateCalculXvalidUnique): the row of a sample in the inverse of the
\* compressed kriging matrix is its rank among the flags of _flagDefine (_getFlagAddress, repaired in the library):
\* the data used are those of FlagDefine

\* NeighUnique::_unique
NbUnique(S) == Idx(S, LAMBDA i : IsActive(S[i]) /\ NotAllUndef(S[i]))
\* NeighMoving::_moving without ball tree: active, not all undefined, distance within the radius
\* (an undefined coordinate gives a distance of 1e30), sorted, first NMaxi
NbMovingCand(S) == {i \in DOMAIN S : IsActive(S[i]) /\ NotAllUndef(S[i]) /\ S[i].c}
NbMoving(S, t) == SortAsc(Range(FirstK(SortByDist(S, NbMovingCand(S), t), NMaxi)))
\* with the ball tree: the tree holds ALL samples (Ball::init(db, ..., useSel = false)), the NMaxi
\* nearest ones are the candidates, and the isActive test is skipped on that path; a sample with an
\* undefined coordinate is at distance 1e30: it is returned only when fewer than NMaxi others exist,
\* and then rejected by the radius
\* (the query asks for MIN(NMaxi, number of rows) neighbours since the repair of the query size)
BallKnn(S, t) == LET def == {i \in DOMAIN S : S[i].c}
                     und == {i \in DOMAIN S : ~S[i].c}
                 IN FirstK(SortByDist(S, def, t) \o SortAsc(und), NMaxi)
NbMovingBall(S, t) == SortAsc({i \in Range(BallKnn(S, t)) : NotAllUndef(S[i]) /\ S[i].c})

\* declared neighbourhoods
DeclNbMoving(S, t, needs) == SortAsc(Range(FirstK(SortByDist(S, Range(Keep(S, needs)), t), NMaxi)))

\* Db::getRanksActive(nbgh, item, useSel, useVerr) as used by evalCovMatrix*, evalDriftMatrix
RanksData(S, useVerr) == DataVM(S, LAMBDA i, w : RanksActive(S[i]) /\ S[i].z[w] /\ (useVerr /\ HasV => S[i].v))

\* the same readers asked for SOME variables only (ivar0 >= 0 of evalCovMatrix*, evalDriftMatrix; list ivars of
\* Db::getMultipleRanksActive / getMultipleValuesActive): each single variable, and a reordered list.  The data
\* of request r are those of variable r[1], then r[2], ...; Db::getMultipleRanksActive reads the definedness of
\* variable jvars[k] (not of the k-th variable of the Db)
Requests == IF NVar = 1 THEN << <<1>> >> ELSE << <<1>>, <<2>>, <<2, 1>> >>
DataReq(S, r, P(_, _)) == Flatten([k \in DOMAIN r |-> LET q == Idx(S, LAMBDA i : P(i, r[k])) IN [j \in DOMAIN q |-> <<q[j], r[k]>>]])
\* physical removal for ONE requested variable w: only the samples where that datum is usable; the other variables
\* are irrelevant to the request (the harness fills them)
KeepVar(S, needs, w) == Idx(S, LAMBDA i : UsableDatum(S[i], w, needs))
ReduceVar(S, needs, w) == LET kp == KeepVar(S, needs, w) IN
                          [k \in 1..Len(kp) |-> [S[kp[k]] EXCEPT !.sel = "none", !.z = [u \in Vars |-> TRUE]]]

\* conditional simulation onto targets lying on the data (_updateData2ToTarget, point and grid branches): the
\* target at the place of identity a receives the value of the first ACTIVE datum found at that place (if defined)
OnPlace(S, a, P(_)) == {i \in DOMAIN S : P(i) /\ S[i].c /\ ~S[i].pert /\ S[i].id = a}
CopyMap(S, P(_), Q(_, _)) == [a \in Ids |-> [w \in Vars |->
                               IF OnPlace(S, a, P) # {} /\ Q(CHOOSE i \in OnPlace(S, a, P) : TRUE, w)
                               THEN CHOOSE i \in OnPlace(S, a, P) : TRUE ELSE 0]]
CopyCode(S) == CopyMap(S, LAMBDA i : IsActive(S[i]), LAMBDA i, w : S[i].z[w])

\* simple interpolators (CalcSimpleInterpolation: inverse distance, nearest neighbour, moving average / median,
\* least squares) of variable 1: active, value defined; an undefined coordinate gives a distance of 1e30 (outside
\* any neighbourhood).  The inverse distances have no such limit: the sample keeps a weight 1e-60, i.e. it decides
\* the estimate when no datum has coordinates
InterpData(S) == DataReq(S, <<1>>, LAMBDA i, w : IsActive(S[i]) /\ S[i].z[w] /\ S[i].c)
\* average covariances (ACov::evalAverageDbToDb): every active sample with a non-zero weight, through its
\* coordinates whatever they are; global_arithmetic takes Cxx and Cxv over these samples (whether their value is
\* defined or not, and counts them in np) and the mean over the defined values

\* statistics (Classical.cpp): isActive, then FFFF on the value (flagIso: on all the variables)
StatData(S, iso) == DataVM(S, LAMBDA i, w : IsActive(S[i]) /\ S[i].z[w] /\ (iso => \A u \in Vars : S[i].z[u]))
DeclStat(S, iso) == DataVM(S, LAMBDA i, w : SelOn(S[i]) /\ S[i].z[w] /\ (iso => \A u \in Vars : S[i].z[u]))

\* experimental variogram (Vario::_calculateGeneralSolution1 + _evaluate): pairs i<j, both active,
\* both values defined (variable w with itself), distance in a lag.  A pair with an undefined
\* coordinate has no lag (distance 1e30) -- transcribed as such.
PairsOf(S, w, P(_)) == {p \in (DOMAIN S) \X (DOMAIN S) : p[1] < p[2] /\ P(p[1]) /\ P(p[2])
                                                          /\ S[p[1]].z[w] /\ S[p[2]].z[w]
                                                          /\ S[p[1]].c /\ S[p[2]].c}
VarioPairs(S, w) == PairsOf(S, w, LAMBDA i : IsActive(S[i]))
DeclPairs(S, w)  == PairsOf(S, w, LAMBDA i : SelOn(S[i]))
SwOf(S, pairs) == [k \in 1..NLag |-> Cardinality({p \in pairs : Lag(S[p[1]].id, S[p[2]].id) = k - 1})]

\* experimental covariance: same pairs; the products are centred with the mean of every active sample whose
\* value is defined (Vario::_getStatistics / _centerCovariance), whatever its coordinates
CenteringData(S) == DataVM(S, LAMBDA i, w : IsActive(S[i]) /\ S[i].z[w])

\* migrate point -> point (CalcMigrate::_expandPointToPoint): nearest active sample whose value is defined
\* (the test of the value was added by a repair; an undefined coordinate gives a distance of 1e30 = never nearest)
NearestOf(S, A, t) == IF A = {} THEN 0 ELSE SortByDist(S, A, t)[1]
MigrateSrc(S, t)     == NearestOf(S, {i \in DOMAIN S : IsActive(S[i]) /\ S[i].c /\ S[i].z[1]}, t)
\* with flag_ball (_expandPointToPointBall, after the repair of the selection): nearest sample of a tree holding
\* the samples of getRanksActive(); the value is not tested, and a sample with an undefined coordinate is in the
\* tree at distance 1e30: it wins when no sample has coordinates
MigrateBallSrc(S, t) == LET cand == {i \in DOMAIN S : RanksActive(S[i])} IN
                        IF {i \in cand : S[i].c} # {} THEN NearestOf(S, {i \in cand : S[i].c}, t)
                        ELSE IF cand = {} THEN 0 ELSE CHOOSE i \in cand : \A j \in cand : i <= j
\* declared: nearest usable sample for the migrated variable (variable 1)
DeclMigrateSrc(S, t) == NearestOf(S, {i \in DOMAIN S : UsableDatum(S[i], 1, {"c"})}, t)

\* migrate point -> grid without filling (_migratePointToGrid): every located active sample with a defined value
\* is assigned to the node of its mesh (the samples of this geometry lie in distinct meshes, whatever the
\* convention -- centred or not -- used to locate a point): the values written are those of these samples
MigrateGrid(S)     == Idx(S, LAMBDA i : IsActive(S[i]) /\ S[i].c /\ S[i].z[1])
DeclMigrateGrid(S) == Idx(S, LAMBDA i : UsableDatum(S[i], 1, {"c"}))
\* ... with filling (expandPointToGrid): nearest sample of every node among the active samples with a defined value
\* and defined coordinates (rows kept next to the ranked coordinates since the repair)
NearestToNode(S, A, g) == IF A = {} THEN 0 ELSE CHOOSE i \in A : \A j \in A : D2SG(S[i].id, g) <= D2SG(S[j].id, g)
MigrateFill(S) == [g \in Nodes |-> NearestToNode(S, {i \in DOMAIN S : IsActive(S[i]) /\ S[i].z[1] /\ S[i].c}, g)]
DeclMigrateFill(S) == [g \in Nodes |-> NearestToNode(S, {i \in DOMAIN S : UsableDatum(S[i], 1, {"c"})}, g)]

\* conditional turning bands: bands sized on, and simulated at, the active samples that have coordinates (_minmax,
\* _simulatePoint), kriging of the simulated errors with the flags of _flagDefine (_simulateCalcul) -- all three
\* repaired in the library: the conditioning data are those of FlagDefine on the unique neighbourhood

\* row-level readers of the selection: Db::createReduce (rows of getRanksActive() without variable),
\* getSampleNumber(true), getColumn(useSel = true, compressed) (cell exactly 1), getRanksActive, getActiveArray
IsOne(s) == s.sel \in {"none", "on"}
RowReaders(S) == << Idx(S, LAMBDA i : RanksActive(S[i])),
                    Cardinality({i \in DOMAIN S : CountedActive(S[i])}),
                    Idx(S, LAMBDA i : IsOne(S[i])),
                    Idx(S, LAMBDA i : RanksActive(S[i])),
                    Idx(S, LAMBDA i : IsActive(S[i])) >>
DeclRows(S) == LET r == Idx(S, LAMBDA i : SelOn(S[i])) IN <<r, Len(r), r, r, r>>

-----------------------------------------------------------------------------
(* Catalogue: for every operation what it reads, the shape of its data, its   *)
(* declared and its transcribed data                                          *)

KNeeds == IF HasF THEN {"c", "f"} ELSE {"c"}      \* what kriging reads of a sample

OpNames == <<"krig_u", "krig_m", "krig_mb", "neigh_u", "neigh_m", "neigh_mb", "xvalid_u", "xvalid_m",
             "vario", "vario_cov", "stat", "stat_iso", "cov", "cov_sym", "drift", "simtub", "simtub_pt", "simtub_exp", "migrate",
             "migrate_ball", "migrate_grid", "migrate_fill", "reduce",
             "cov_req", "cov_sym_req", "drift_req", "ranks_req", "krig_on", "simtub_on", "simtub_on_grid",
             "invdist", "nearest", "movave", "movmed", "lstsqr", "avgcov", "global_arith", "global_krig">>
Ops == Range(OpNames)

\* fields read besides the values = which Reduce the operation is compared with
NeedsOf(op) ==
  CASE op \in {"krig_u", "krig_m", "krig_mb", "xvalid_u", "xvalid_m", "simtub", "simtub_pt", "simtub_exp",
                "krig_on", "simtub_on", "simtub_on_grid", "global_krig"} -> KNeeds
    [] op \in {"invdist", "nearest", "movave", "movmed", "lstsqr", "global_arith"} -> {"c"}
    [] op = "avgcov" -> {"c", "anyrow"}          \* reads places and selection (and weights), not the values
    [] op = "neigh_u" -> {}                  \* ANeigh promises: not masked, not all undefined (the rest is _flagDefine's)
    [] op \in {"neigh_m", "neigh_mb"} -> {"c"}
    [] op \in {"vario", "vario_cov"} -> {"c"}
    [] op \in {"stat", "stat_iso"} -> {}
    [] op \in {"cov", "cov_req"} -> {"c"}
    [] op \in {"cov_sym", "cov_sym_req"} -> {"c", "v"}
    [] op \in {"drift", "drift_req"} -> {"c", "f", "v"}
    [] op = "ranks_req" -> {}
    [] op \in {"migrate", "migrate_ball", "migrate_grid", "migrate_fill"} -> {"c"}
    [] op = "reduce" -> {"anyrow"}

\* shape: "data" = sequence of <<position, variable>>, "idx" = sequence of positions, "t..." = one per target,
\* "tsrc" = one position (or 0) per target, "count" = numbers only
KindOf(op) ==
  CASE op \in {"krig_u", "xvalid_u", "simtub", "simtub_pt", "simtub_exp", "stat", "stat_iso", "cov", "cov_sym", "drift",
                "krig_on", "global_krig", "invdist", "nearest", "movave", "movmed", "lstsqr"} -> "data"
    [] op = "avgcov" -> "idx"
    [] op = "global_arith" -> "idx2"             \* <<samples entering the average covariances, samples averaged, np>>
    [] op \in {"cov_req", "cov_sym_req", "drift_req", "ranks_req"} -> "rdata"      \* one data list per request
    [] op \in {"simtub_on", "simtub_on_grid"} -> "datacopy"     \* <<data, per place and variable the datum copied>>
    [] op \in {"krig_m", "krig_mb", "xvalid_m"} -> "tdata"
    [] op = "neigh_u" -> "idx"
    [] op = "reduce" -> "rows5"
    [] op \in {"neigh_m", "neigh_mb"} -> "tidx"
    [] op \in {"migrate", "migrate_ball", "migrate_fill"} -> "tsrc"
    [] op = "migrate_grid" -> "idx"
    [] op = "vario_cov" -> "countidx"
    [] op = "vario" -> "count"

\* requests reachable per operation: the matrices take one variable (ivar0), the Db readers any list
ReqsOf(op) == IF op = "ranks_req" THEN Requests ELSE SubSeq(Requests, 1, NVar)
UseVerr(op) == op \in {"cov_sym_req", "drift_req"}
DeclReq(op, S) == [k \in DOMAIN ReqsOf(op) |-> DataReq(S, ReqsOf(op)[k], LAMBDA i, w : UsableDatum(S[i], w, NeedsOf(op)))]
CodeReq(op, S) == [k \in DOMAIN ReqsOf(op) |-> DataReq(S, ReqsOf(op)[k],
                     LAMBDA i, w : RanksActive(S[i]) /\ S[i].z[w] /\ (UseVerr(op) /\ HasV => S[i].v))]

DeclOf(op, S) ==
  CASE op \in {"krig_u", "xvalid_u", "simtub", "simtub_pt", "simtub_exp", "krig_on", "global_krig"} -> DeclData(S, KNeeds)
    [] op \in {"invdist", "nearest", "movave", "movmed", "lstsqr"} -> DataReq(S, <<1>>, LAMBDA i, w : UsableDatum(S[i], w, {"c"}))
    [] op = "avgcov" -> Keep(S, {"c", "anyrow"})
    [] op = "global_arith" -> LET u == Idx(S, LAMBDA i : UsableDatum(S[i], 1, {"c"})) IN <<u, u, Len(u)>>
    [] op \in {"cov_req", "cov_sym_req", "drift_req", "ranks_req"} -> DeclReq(op, S)
    [] op \in {"simtub_on", "simtub_on_grid"} ->
         <<DeclData(S, KNeeds), CopyMap(S, LAMBDA i : TRUE, LAMBDA i, w : UsableDatum(S[i], w, KNeeds))>>
    [] op \in {"krig_m", "krig_mb", "xvalid_m"} ->
         [t \in Targets |-> LET nb == DeclNbMoving(S, t, KNeeds) IN
                              DataVM(S, LAMBDA i, w : i \in Range(nb) /\ UsableDatum(S[i], w, KNeeds))]
    [] op = "neigh_u" -> Keep(S, {})
    [] op \in {"neigh_m", "neigh_mb"} -> [t \in Targets |-> DeclNbMoving(S, t, {"c"})]
    [] op = "vario" -> [w \in Vars |-> SwOf(S, DeclPairs(S, w))]
    [] op = "vario_cov" -> <<[w \in Vars |-> SwOf(S, DeclPairs(S, w))], DeclData(S, {"c"})>>
    [] op = "stat" -> DeclStat(S, FALSE)
    [] op = "stat_iso" -> DeclStat(S, TRUE)
    [] op = "cov" -> DeclData(S, {"c"})
    [] op = "cov_sym" -> DeclData(S, {"c", "v"})
    [] op = "drift" -> DeclData(S, {"c", "f", "v"})
    [] op \in {"migrate", "migrate_ball"} -> [t \in Targets |-> DeclMigrateSrc(S, t)]
    [] op = "migrate_grid" -> DeclMigrateGrid(S)
    [] op = "migrate_fill" -> DeclMigrateFill(S)
    [] op = "reduce" -> DeclRows(S)

CodeOf(op, S) ==
  CASE op \in {"krig_u", "krig_on", "global_krig"} -> FlagDefine(S, NbUnique(S))
    [] op = "invdist" -> DataReq(S, <<1>>, LAMBDA i, w : IsActive(S[i]) /\ S[i].z[w])
    [] op \in {"nearest", "movave", "movmed", "lstsqr"} -> InterpData(S)
    [] op = "avgcov" -> Idx(S, LAMBDA i : IsActive(S[i]))
    [] op = "global_arith" -> <<Idx(S, LAMBDA i : IsActive(S[i])), Idx(S, LAMBDA i : IsActive(S[i]) /\ S[i].z[1]),
                                Cardinality({i \in DOMAIN S : CountedActive(S[i])})>>      \* np = getSampleNumber(true)
    [] op \in {"cov_req", "cov_sym_req", "drift_req", "ranks_req"} -> CodeReq(op, S)
    [] op \in {"simtub_on", "simtub_on_grid"} -> <<FlagDefine(S, NbUnique(S)), CopyCode(S)>>
    [] op = "xvalid_u" -> FlagDefine(S, NbUnique(S))
    [] op \in {"simtub", "simtub_pt", "simtub_exp"} -> FlagDefine(S, NbUnique(S))
    [] op \in {"krig_m", "xvalid_m"} -> [t \in Targets |-> FlagDefine(S, NbMoving(S, t))]
    [] op = "krig_mb" -> [t \in Targets |-> FlagDefine(S, NbMovingBall(S, t))]
    [] op = "neigh_u" -> NbUnique(S)
    [] op = "neigh_m" -> [t \in Targets |-> NbMoving(S, t)]
    [] op = "neigh_mb" -> [t \in Targets |-> NbMovingBall(S, t)]
    [] op = "vario" -> [w \in Vars |-> SwOf(S, VarioPairs(S, w))]
    [] op = "vario_cov" -> <<[w \in Vars |-> SwOf(S, VarioPairs(S, w))], CenteringData(S)>>
    [] op = "stat" -> StatData(S, FALSE)
    [] op = "stat_iso" -> StatData(S, TRUE)
    [] op = "cov" -> RanksData(S, FALSE)
    [] op = "cov_sym" -> RanksData(S, TRUE)
    [] op = "drift" -> RanksData(S, TRUE)
    [] op = "migrate" -> [t \in Targets |-> MigrateSrc(S, t)]
    [] op = "migrate_ball" -> [t \in Targets |-> MigrateBallSrc(S, t)]
    [] op = "migrate_grid" -> MigrateGrid(S)
    [] op = "migrate_fill" -> MigrateFill(S)
    [] op = "reduce" -> RowReaders(S)

\* positions -> identities (this is Expand: a result on Reduce(S) re-indexed on S)
PairsToId(S, q) == [k \in DOMAIN q |-> IF q[k][1] = 0 THEN q[k] ELSE <<S[q[k][1]].id, q[k][2]>>]
IdxToId(S, q)   == [k \in DOMAIN q |-> S[q[k]].id]
ToId(op, S, x) ==
  CASE KindOf(op) = "data"  -> PairsToId(S, x)
    [] KindOf(op) = "tdata" -> [t \in Targets |-> PairsToId(S, x[t])]
    [] KindOf(op) = "idx"   -> IdxToId(S, x)
    [] KindOf(op) = "tidx"  -> [t \in Targets |-> IdxToId(S, x[t])]
    [] KindOf(op) = "tsrc"  -> [t \in DOMAIN x |-> IF x[t] <= 0 THEN x[t] ELSE S[x[t]].id]
    [] KindOf(op) = "count" -> x
    [] KindOf(op) = "idx2" -> <<IdxToId(S, x[1]), IdxToId(S, x[2]), x[3]>>
    [] KindOf(op) = "rdata" -> [k \in DOMAIN x |-> PairsToId(S, x[k])]
    [] KindOf(op) = "datacopy" -> <<PairsToId(S, x[1]),
                                    [a \in Ids |-> [w \in Vars |-> IF x[2][a][w] = 0 THEN 0 ELSE S[x[2][a][w]].id]]>>
    [] KindOf(op) = "countidx" -> <<x[1], PairsToId(S, x[2])>>
    [] KindOf(op) = "rows5" -> <<IdxToId(S, x[1]), x[2], IdxToId(S, x[3]), IdxToId(S, x[4]), IdxToId(S, x[5])>>

Spec_(op, S)      == ToId(op, S, DeclOf(op, S))                       \* what C05 promises
OnMasked(op, S)   == ToId(op, S, CodeOf(op, S))                       \* what the code does on the masked Db
OnReduced(op, S)  == LET R == Reduce(S, NeedsOf(op)) IN ToId(op, R, CodeOf(op, R))   \* ... on the reduced Db
OnPerturbed(op, S) == LET P == Perturb(S, NeedsOf(op)) IN ToId(op, P, CodeOf(op, P))   \* ... on the perturbed Db
Agrees(op, S)     == OnMasked(op, S) = Spec_(op, S) /\ OnReduced(op, S) = Spec_(op, S) /\ OnPerturbed(op, S) = Spec_(op, S)
\* a request for one variable w on the Db reduced for that variable (ReduceVar) uses the data declared on S
ReduceVarAgrees(op, S) == \A w \in Vars : LET R == ReduceVar(S, NeedsOf(op), w) IN
                                            PairsToId(R, CodeReq(op, R)[w]) = Spec_(op, S)[w]
\* Reduce itself is sound: on a reduced Db the declared data are those declared on the masked one
ReduceSound(op, S) == LET R == Reduce(S, NeedsOf(op)) IN ToId(op, R, DeclOf(op, R)) = Spec_(op, S)

-----------------------------------------------------------------------------
(* Masked TARGET sites: an operation writing on a target Db with a selection  *)
(* computes the active sites exactly as on the Db reduced to them (TKeep =     *)
(* Expand for the targets), leaves every pre-existing cell untouched, and a    *)
(* newly created output variable holds the undefined value at a masked site.   *)

(* The value at an active site must not depend on the presence of masked sites: *)
(* it equals the value computed on the target Db reduced to the active sites     *)
(* (same seed for the simulations: a masked site consumes nothing of the random  *)
(* stream).  This is asserted for the turning bands wherever the reduced target   *)
(* is expressible: always for point targets; for a grid only when the model is a  *)
(* pure nugget effect (the nodes of a grid cannot be removed, and the structured  *)
(* bands are sized on the corners of the WHOLE grid, whereas the nugget component  *)
(* is drawn site by site in Db order: node k of the masked grid = k-th point of   *)
(* the Db of its active nodes).  Other simulators are not in this catalogue.      *)

\* catalogue of the target-writing operations: turning bands = conditional or not x points or grid x model
\* (structures + nugget, structures only, nugget only)
SimCond == <<"c", "n">>
SimTarget == <<"p", "g">>
SimModel == <<"sn", "s", "n">>
TargetOps ==
  << [op |-> "t_krig_u", reduce |-> TRUE], [op |-> "t_krig_m", reduce |-> TRUE],
     [op |-> "t_migrate", reduce |-> TRUE], [op |-> "t_migrate_ball", reduce |-> TRUE] >> \o
  Flatten([i \in 1..2 |-> Flatten([j \in 1..2 |-> [k \in 1..3 |->
             [op |-> <<"t_sim", SimCond[i], SimTarget[j], SimModel[k]>>,
              reduce |-> (SimTarget[j] = "p" \/ SimModel[k] = "n")]]])])

TargetOn(ts) == ts \in {"none", "on"}
TKeep(T) == IdxN(Len(T), LAMBDA t : TargetOn(T[t]))
TargetExpect(T) == [t \in DOMAIN T |-> IF TargetOn(T[t]) THEN "value" ELSE "undefined"]
TargetPatterns == {[t \in Targets |-> "none"]} \cup [Targets -> {"on", "off"}]
\* Expand is a bijection between the rows of the reduced target Db and the active sites
ASSUME \A T \in TargetPatterns : /\ \A k \in DOMAIN TKeep(T) : TargetExpect(T)[TKeep(T)[k]] = "value"
                                  /\ Len(TKeep(T)) = Cardinality({t \in Targets : TargetExpect(T)[t] = "value"})

-----------------------------------------------------------------------------
(* Features of a pattern (class of the case; used to state the deviations)   *)

Feat(S) ==
  [ sel_off    |-> \E i \in DOMAIN S : S[i].sel = "off",
    coord_na   |-> \E i \in DOMAIN S : SelOn(S[i]) /\ ~S[i].c,                \* active sample without coordinates
    zall_na    |-> \E i \in DOMAIN S : SelOn(S[i]) /\ S[i].c /\ ~AnyZ(S[i]),  \* active sample without any value
    hetero     |-> \E i \in DOMAIN S : SelOn(S[i]) /\ AnyZ(S[i]) /\ \E w \in Vars : ~S[i].z[w],
    f_na       |-> HasF /\ \E i \in DOMAIN S : SelOn(S[i]) /\ ~S[i].f,
    v_na       |-> HasV /\ \E i \in DOMAIN S : SelOn(S[i]) /\ ~S[i].v,
    odd_sel    |-> OddSel(S),
    none_usable |-> Keep(S, {"c", "f", "v"}) = <<>>,
    clean      |-> \A i \in DOMAIN S : UsableSample(S[i], {"c", "f", "v"}) /\ \A w \in Vars : S[i].z[w] ]

(***************************************************************************)
(* Deviations of the transcribed code from Reduce found by TLC (each was     *)
(* first reported by TLC as a violation of ModelImplementsReduce, then        *)
(* entered here with its mechanism).  The conformance runs decide whether     *)
(* the real library shows it (then it is a recorded finding of known/C05.json *)
(* or a VIOLATION).                                                           *)
(***************************************************************************)
ModelDeviation(op, S) ==
  LET ft == Feat(S) IN
  \/ ft.odd_sel
       \* D0 the three readings of the selection cell disagree on undefined / negative cells (dedicated category)
  \/ op \in {"krig_mb", "neigh_mb"} /\ (ft.sel_off \/ ft.zall_na)
       \* D1 ball tree built on all samples (useSel = false) and isActive skipped on that path: masked samples
       \*    enter the neighbourhood; samples without value take NMaxi slots of the k-nearest query
  \/ op = "migrate_ball" /\ (ft.zall_na \/ ft.hetero \/ ft.coord_na)
       \* D2 CalcMigrate::_expandPointToPointBall: the nearest sample wins even when its value is undefined, and a
       \*    sample without coordinates is a candidate (the selection part has been repaired in the library)
  \/ op \in {"cov", "cov_sym", "drift", "cov_req", "cov_sym_req", "drift_req"} /\ ft.coord_na
       \* D4 getRanksActive tests selection, value and Verr, not the coordinates: rows computed from 1.234e30
  \/ op = "invdist" /\ ft.coord_na
       \* D14 inverse distances: a datum without coordinates keeps the weight 1 / (1e30)^p
  \/ op \in {"avgcov", "global_arith"} /\ ft.coord_na
       \* D12 evalAverageDbToDb tests the selection and the weight only: covariances computed from 1.234e30
  \/ op = "global_arith" /\ (ft.zall_na \/ ft.hetero)
       \* D13 global_arithmetic: a sample whose value is undefined enters Cxx, Cxv and the count np (only the mean skips it)
  \/ op \in {"drift", "drift_req"} /\ ft.f_na
       \* D5 ... nor the external drift: the drift matrix holds 1.234e30
  \/ op \in {"krig_m", "krig_mb", "xvalid_m"} /\ ft.f_na
       \* D7 samples that _flagDefine drops later (undefined external drift) still fill the NMaxi slots
  \/ op = "vario_cov" /\ ft.coord_na
       \* D11 the experimental covariance is centred with a mean that includes the samples without coordinates
       \* (repaired in the library and removed from the transcription: D1b k-nearest query larger than the tree,
       \*  D3 point-to-point migration copying an undefined value, D6 conditional simulation with samples without
       \*  coordinates, D8 point targets read in the input Db, D9 cross-validation rows, D10 expandPointToGrid ranks)

=============================================================================
