SPECIFICATION Spec
CONSTANTS
  Thorough = TRUE
INVARIANT Inv
CONSTRAINT Emit
CHECK_DEADLOCK FALSE
