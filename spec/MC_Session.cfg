SPECIFICATION Spec
CONSTANT MaxLen = 4
INVARIANT Table
PROPERTY StepLaw
CONSTRAINT EmitScripts
CHECK_DEADLOCK FALSE
