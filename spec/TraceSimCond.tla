---------------------------- MODULE TraceSimCond ----------------------------
(* Validates the per-step events recorded by the guarded hooks of hooks/C13.patch while the   *)
(* real library executed the cases of SimCond (file IOEnv.TRACE, one JSON object per line;     *)
(* the driver puts a "Script" header before the events of each script):                        *)
(*  Tgb        every truncated draw: the zones the code used are the zones of the spec for the *)
(*             ordering class of its bounds, and the value lies within the bounds;             *)
(*  GibbsStep  every update of the Gibbs sampler: the new value lies within the effective      *)
(*             bounds of the sweep, and within the raw bounds from sweep nburn on (InBounds at *)
(*             EVERY step);                                                                    *)
(*  GibbsStore / TBReadGaus  rank consistency: the Gaussian value read as conditioning datum   *)
(*             of (rank, simulation) is the one the Gibbs sampler stored for it;               *)
(*  TBCondAt   every copy of a datum onto a target: the target coincides with that datum, and  *)
(*             (continuous model, no PGS) the conditional simulation was already equal to the  *)
(*             datum, for every simulation rank.                                               *)
(* Every event is judged on its own; rejections are printed as JSON lines.                     *)
EXTENDS SimCond, Json, IOUtils, TLCExt, SequencesExt

Log == ndJsonDeserialize(IOEnv.TRACE)
NE == Len(Log)

VARIABLES ix, ctx, stored
tvars == <<ix, ctx, stored, st>>

NoCtx == [e |-> "Script", sid |-> "none", sim |-> "none", exact |-> FALSE, coincide |-> <<>>, ngrf |-> <<1, 1>>, nbsimu |-> 1]

TgbFails(e) ==
  LET rp == RepPair(e.ca, e.cb, e.ord)
      kind == TgbKind(rp[1], rp[2])
  IN (IF e.t = ZoneTypes(rp[1], rp[2]) THEN {} ELSE {"zones"})
     \cup (IF e.res = "nan" THEN {"nan"} ELSE {})
     \cup (IF kind # "swapped" /\ e.res \in {"below", "above"} THEN {"bounds"} ELSE {})
StepFails(e) ==
     (IF e.eff = "within" THEN {} ELSE {"effective-bounds"})
\cup (IF e.iter >= e.nburn /\ e.raw # "within" THEN {"raw-bounds"} ELSE {})
ReadFails(e) ==
  IF e.item \in DOMAIN stored /\ stored[e.item].isimu = e.isimu
        /\ PropRank(stored[e.item].ipgs, stored[e.item].ivar, ctx.ngrf) = e.icase
  THEN {} ELSE {"rank"}
CondFails(e) ==
     (IF \E j \in DOMAIN ctx.coincide : ctx.coincide[j] = <<e.out + 1, e.ip + 1>> THEN {} ELSE {"not-coinciding"})
\cup (IF ctx.exact /\ ~e.pgs /\ ~e.exact THEN {"not-exact"} ELSE {})

TInit == ix = 0 /\ ctx = NoCtx /\ stored = <<>> /\ st = [k |-> "trace"]
TNext ==
  /\ ix < NE
  /\ ix' = ix + 1
  /\ st' = st
  /\ LET e == Log[ix'] IN
     /\ ctx' = IF e.e = "Script" THEN e ELSE ctx
     /\ stored' = IF e.e = "Script" THEN <<>>
                  ELSE IF e.e = "GibbsStore" THEN [i \in (DOMAIN stored) \cup {e.item} |-> IF i = e.item THEN e ELSE stored[i]]
                  ELSE stored
     /\ LET f == CASE e.e = "Tgb" -> TgbFails(e)
                   [] e.e = "GibbsStep" -> StepFails(e)
                   [] e.e = "TBReadGaus" -> ReadFails(e)
                   [] e.e = "TBCondAt" -> CondFails(e)
                   [] OTHER -> {}
        IN f = {} \/ PrintT(ToJson([kind |-> "trace", idx |-> ix', sid |-> ctx.sid, ev |-> e.e, fails |-> SetToSeq(f)]))
TSpec == TInit /\ [][TNext]_tvars
AllExamined == TLCGet("stats").diameter = NE + 1 \/ PrintT(<<"NOT-ALL-EXAMINED", TLCGet("stats").diameter, NE + 1>>)
=============================================================================
