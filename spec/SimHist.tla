------------------------------ MODULE SimHist ------------------------------
(* C13, part 3: reproducibility as a HISTORY property over simulation REQUESTS.              *)
(* "Same inputs and seed => bit-identical result" must hold whatever was simulated before    *)
(* in the same process.  Besides the random stream (SimSeed.tla) the simulators keep         *)
(* FUNCTION-STATIC MEMOS that survive a call (src/Simulation/CalcSimuTurningBands.cpp):      *)
(*   _power1DInit : alpha_mem + constants (coeff depends on the exponent AND on the scale of *)
(*                  the band), refreshed when  ibs == 0 || param != alpha_mem;               *)
(*   _spline1DInit: k_mem + constants of k, refreshed when  ibs == 0 || k != k_mem;          *)
(* and file-static working structures set at the entry of simpgs / simbipgs (ModCat, update  *)
(* / scale function pointers) before any use.  They are transcribed here with their refresh  *)
(* conditions; the output of a request is a term over (request, stream at entry, memo values *)
(* actually used by every band).  The catalogue covers every basic structure the turning     *)
(* bands dispatch on (CalcSimuTurningBands::_initializeSeedBands, after _particularCase),    *)
(* each with two scales, the parametrised ones with parameters on both sides of their method *)
(* switch and two parameters on the same side, plus the other simulators.                    *)
(* Parameters and scales are integers in TENTHS.                                             *)
EXTENDS Integers, Sequences, FiniteSets, TLC

CONSTANTS NBands,     \* bands per simulation in the model (the refresh conditions depend on the band rank)
          Styles,     \* generator styles (law_set_old_style): subset of {"old", "new"}; see SimSeed.tla
          FullNew     \* TRUE: every pair under the new style too; FALSE: (A, A) and (A, B in NewB) only

Scales == {60, 10}
(* parameters per structure; 0 = the structure has no third parameter *)
ParsOf(s) == CASE s = "BESSELJ" -> {10, 20}
               [] s = "MATERN"  -> {3, 15, 25}          \* <= 0.5: migration (K-Bessel scale); > 0.5: spectral
               [] s = "STABLE"  -> {7, 13, 18}          \* <= 1: migration; > 1: spectral
               [] s = "POWER"   -> {8, 15}
               [] OTHER         -> {0}
TBStructs == {"NUGGET", "EXPONENTIAL", "SPHERICAL", "CUBIC", "GAUSSIAN", "SINCARD", "BESSELJ", "MATERN", "STABLE",
              "POWER", "SPLINE_GC", "LINEAR", "ORDER1_GC", "ORDER3_GC", "ORDER5_GC"}
(* method chosen by the dispatch of _initializeSeedBands / _simulatePoint / _simulateGrid *)
Method(s, par) ==
  CASE s = "NUGGET" -> "nugget"
    [] s = "EXPONENTIAL" -> "migration"
    [] s \in {"SPHERICAL", "CUBIC"} -> "dilution"
    [] s \in {"GAUSSIAN", "SINCARD", "BESSELJ"} -> "spectral"
    [] s = "MATERN" -> (IF par > 5 THEN "spectral" ELSE "migration")
    [] s = "STABLE" -> (IF par > 10 THEN "spectral" ELSE "migration")
    [] s = "POWER" -> "power1D"
    [] s = "SPLINE_GC" -> "spline1D"
    [] OTHER -> "irf"                                   \* LINEAR, ORDER1_GC, ORDER3_GC, ORDER5_GC

TBReqs == {[sim |-> "simtub", struct |-> s, par |-> p, sc |-> c] : s \in TBStructs, p \in UNION {ParsOf(x) : x \in TBStructs}, c \in Scales}
OtherReqs ==
     {[sim |-> "simtubc", struct |-> "SPHERICAL", par |-> 0, sc |-> c] : c \in Scales}
\cup {[sim |-> "simfft", struct |-> s, par |-> 0, sc |-> c] : s \in {"SPHERICAL", "EXPONENTIAL"}, c \in Scales}
\cup {[sim |-> "gibbs", struct |-> m, par |-> p, sc |-> 30] : m \in {"umulti", "mmulti", "multimono"}, p \in {1, 2}}   \* par = bounds pattern
\cup {[sim |-> "simpgs", struct |-> r, par |-> 0, sc |-> 30] : r \in {"S2", "ST3"}}
\cup {[sim |-> "spde", struct |-> "MATERN", par |-> 10, sc |-> c] : c \in Scales}
Reqs == {r \in TBReqs : r.par \in ParsOf(r.struct)} \cup OtherReqs

(* ---------------------------------------------------------------- memos *)
NoMemo == [alpha |-> -1, pconst |-> <<-1, -1>>, k |-> -1, kconst |-> -1, modcat |-> "none"]
(* refresh conditions, AS CODED *)
PowerRefresh(ibs, par, m) == ibs = 0 \/ par # m.alpha
SplineRefresh(ibs, k, m)  == ibs = 0 \/ k # m.k
(* one band of a request: new memo and the constants the band uses *)
BandStep(r, ibs, m) ==
  LET meth == Method(r.struct, r.par) IN
  CASE meth = "power1D" ->
         LET m2 == IF PowerRefresh(ibs, r.par, m) THEN [m EXCEPT !.alpha = r.par, !.pconst = <<r.par, r.sc>>] ELSE m
         IN [memo |-> m2, used |-> <<"power", m2.pconst[1], m2.pconst[2]>>]
    [] meth = "spline1D" ->
         LET m2 == IF SplineRefresh(ibs, 1, m) THEN [m EXCEPT !.k = 1, !.kconst = 1] ELSE m
         IN [memo |-> m2, used |-> <<"spline", m2.kconst, 0>>]
    [] OTHER -> [memo |-> m, used |-> <<meth, 0, 0>>]
RECURSIVE Bands(_, _, _, _)
Bands(r, ibs, m, acc) ==
  IF ibs = NBands THEN [memo |-> m, used |-> acc]
  ELSE LET b == BandStep(r, ibs, m) IN Bands(r, ibs + 1, b.memo, Append(acc, b.used))
(* a whole request: the turning bands run their bands three times (seeds, data/grid); the     *)
(* other simulators set their file-static structures at entry                                 *)
Run(r, m) ==
  IF r.sim \in {"simtub", "simtubc"} THEN Bands(r, 0, m, <<>>)
  ELSE IF r.sim = "simpgs" THEN [memo |-> [m EXCEPT !.modcat = r.struct], used |-> << <<"modcat", 0, 0>> >>]
  ELSE [memo |-> m, used |-> <<>>]
(* every request reseeds at entry (SimSeed.tla; spde through law_set_random_seed before it) *)
OutTerm(r, m) == [req |-> r, stream |-> "seed", used |-> Run(r, m).used]

(* the requests placed between two A under the new style when the catalogue is not crossed entirely *)
NewB == {r \in OtherReqs : r.sim \in {"simfft", "gibbs"} /\ r.sc # 10 /\ r.par # 2 /\ r.struct \in {"SPHERICAL", "umulti"}}
        \cup {r \in TBReqs : r.struct = "EXPONENTIAL" /\ r.par = 0 /\ r.sc = 60}
VARIABLES a, b, memo, step, outs, style
hvars == <<a, b, memo, step, outs, style>>
(* every request reseeds at entry with law_set_random_seed(seed), which re-seeds the generator of   *)
(* EITHER style: the stream term at entry is "seed" under both                                      *)
Init == /\ a \in Reqs /\ b \in Reqs /\ memo = NoMemo /\ step = 0 /\ outs = <<>>
        /\ style \in Styles
        /\ (style = "new" /\ ~FullNew) => (b = a \/ b \in NewB)
Next == /\ step < 3
        /\ LET r == IF step = 1 THEN b ELSE a IN
           /\ outs' = Append(outs, OutTerm(r, memo))
           /\ memo' = Run(r, memo).memo
        /\ step' = step + 1
        /\ UNCHANGED <<a, b, style>>
Spec == Init /\ [][Next]_hvars

(* C13 as a history property: in the sequence A, B, A every call gives what the same request *)
(* gives in a fresh process (so A twice the same, and B after A as B alone)                    *)
ReqAt(i) == IF i = 2 THEN b ELSE a
FreshAt(i) == outs[i] = OutTerm(ReqAt(i), NoMemo)
HistReproducible == \A i \in 1..Len(outs) : FreshAt(i)
=============================================================================
