---------------------------- MODULE MC_SimHist ----------------------------
(* Every ordered pair (A, B) of the request catalogue: TLC checks HistReproducible on the     *)
(* transcribed memos and emits the script A, B, A with the verdict of the model (every call   *)
(* must give, bit for bit, what the same request gives in a fresh process of the real library).*)
EXTENDS SimHist, Json
Emit == (step' = 3) => PrintT(ToJson([kind |-> "aba", style |-> style, a |-> a, b |-> b, same |-> (\A i \in 1..3 : outs'[i] = OutTerm(IF i = 2 THEN b ELSE a, NoMemo))]))
=============================================================================
