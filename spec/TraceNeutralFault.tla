--------------------------- MODULE TraceNeutralFault ---------------------------
(* Judges the objects that the REAL loaders returned for faulty files (harness nf_fault): the projection of each   *)
(* object through the public getters must satisfy the consistency rules of its class -- the rules that hold for     *)
(* every object built through the API (the abstract instances of NeutralFile.tla satisfy them by construction,      *)
(* which MC checks: WFFails(c, Instance) = {}).  Every record is judged independently; rejections are printed as     *)
(* JSON lines; the postcondition requires that all records have been examined.                                      *)
EXTENDS NeutralFile, Json, IOUtils, TLCExt

Objects == ndJsonDeserialize(IOEnv.OBJECTS)

Distinct(q) == \A i, j \in DOMAIN q : i # j => q[i] # q[j]
SafeProd(q) == IF \E k \in DOMAIN q : q[k] < 0 \/ q[k] > 40000 THEN -1 ELSE IF Len(q) > 4 THEN -1 ELSE ProdSeq(q)
Chk(cond, name) == IF cond THEN {} ELSE {name}

WFDbPart(p) ==
       Chk(p.ncol >= 0 /\ p.nech >= 0 /\ Len(p.locators) = p.ncol /\ Len(p.names) = p.ncol /\ Len(p.rows) = p.nech
           /\ \A e \in DOMAIN p.rows : Len(p.rows[e]) = p.ncol, "table-shape")
  \cup Chk(Distinct(p.names), "names-unique")
  \cup Chk(\A i, j \in DOMAIN p.locators : (i # j /\ p.locators[i] # NA) => p.locators[i] # p.locators[j], "one-column-per-role")
WFGridPart(p) ==
       Chk(p.ndim >= 1 /\ Len(p.nx) = p.ndim /\ Len(p.x0) = p.ndim /\ Len(p.dx) = p.ndim /\ Len(p.angles) = p.ndim, "grid-shape")
  \cup Chk(SafeProd(p.nx) = p.nech, "grid-size")
WFModel(p) ==
       Chk(p.ndim >= 1 /\ p.nvar >= 1, "model-dims")
  \cup Chk(\A k \in DOMAIN p.covs : LET c == p.covs[k] IN
             /\ c.aniso \in {0, 1} /\ c.rot \in {0, 1}
             /\ Len(c.coeffs) = c.aniso * p.ndim
             /\ Len(c.rotmat) = c.rot * p.ndim * p.ndim
             /\ Len(c.sill) = p.nvar * p.nvar, "cov-shape")
  \cup Chk(Len(p.covar0) = p.nvar * p.nvar /\ Len(p.means) = (IF Len(p.drifts) = 0 THEN p.nvar ELSE 0), "context-shape")
WFNeighMoving(p) ==
       Chk(p.ndim >= 1, "neigh-dims")
  \cup Chk(p.aniso \in {0, 1} /\ p.rot \in {0, 1} /\ Len(p.coeffs) = p.aniso * p.ndim /\ Len(p.rotmat) = p.rot * p.ndim * p.ndim, "aniso-shape")
WFVario(p) ==
       Chk(p.nvar >= 0 /\ p.nvar <= 1000 /\ Len(p.names) = p.nvar /\ Len(p.vars) = p.nvar * p.nvar, "vario-vars")
  \cup Chk(\A d \in DOMAIN p.dirs : LET dr == p.dirs[d] IN
             /\ dr.npas >= 0 /\ DirSize(dr.npas, p.nvar) >= 0 /\ Len(dr.vals) = 3 * DirSize(dr.npas, p.nvar)
             /\ Len(dr.codir) = p.ndim /\ (dr.grid = 1 => Len(dr.grincr) = p.ndim), "dir-shape")
WFPoly(xy) == \A k \in DOMAIN xy : Len(xy[k]) = 2

WFFails(c, p) ==
  CASE c = "Db" -> WFDbPart(p)
    [] c = "DbGrid" -> WFDbPart(p) \cup WFGridPart(p)
    [] c = "Table" -> Chk(p.nrows >= 0 /\ p.ncols >= 0 /\ p.nrows <= 40000 /\ p.ncols <= 40000 /\ Len(p.vals) = p.nrows * p.ncols, "table-shape")
    [] c = "Model" -> WFModel(p)
    [] c \in {"NeighUnique", "NeighBench", "NeighCell"} -> Chk(p.ndim >= 1, "neigh-dims")
    [] c = "NeighImage" -> Chk(p.ndim >= 1 /\ Len(p.radius) = p.ndim, "neigh-dims")
    [] c = "NeighMoving" -> WFNeighMoving(p)
    [] c = "Vario" -> WFVario(p)
    [] c = "Polygons" -> Chk(\A e \in DOMAIN p.elems : WFPoly(p.elems[e].xy), "polygon-shape")
    [] c = "PolyLine2D" -> Chk(WFPoly(p.xy), "polygon-shape")
    [] OTHER -> {}

VARIABLE k
NO == Len(Objects)
Init == k = 0
Next == /\ k < NO
        /\ k' = k + 1
        /\ LET r == Objects[k']  f == WFFails(r.c, r.p)
           IN f = {} \/ PrintT(ToJson([id |-> r.id, fails |-> f]))
Spec == Init /\ [][Next]_k
AllExamined == TLCGet("stats").diameter = NO + 1 \/ PrintT(<<"NOT-ALL-EXAMINED", TLCGet("stats").diameter, NO + 1>>)
=============================================================================
