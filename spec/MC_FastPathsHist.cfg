SPECIFICATION Spec
CONSTANTS
  Protocol = "release_on_every_exit"
  MaxHist = 2
INVARIANT Inv_ReadsOwnPoints
CONSTRAINT Emit
CHECK_DEADLOCK FALSE
