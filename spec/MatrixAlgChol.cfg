SPECIFICATION Spec
CONSTANTS
  OpsLevel = "all"
  Limit = 20000
