---------------------------- MODULE TraceDbTable ----------------------------
(* Judges transitions recorded from the REAL gstlearn Db (harness db_explore):      *)
(*  - every recorded state: C07 consistency + agreement of all designators           *)
(*  - every recorded (from, op, to): the relation Judge of DbTable                   *)
(* Each record is judged independently (a rejected transition does not stop the     *)
(* examination of the others).  Rejections are printed as JSON lines; the driver     *)
(* maps them to VIOLATION / KNOWN-FINDING.  The postcondition requires that all      *)
(* records have been examined.                                                       *)
EXTENDS DbTable, Json, IOUtils, TLCExt

StatesLog == ndJsonDeserialize(IOEnv.STATES)
TransLog  == ndJsonDeserialize(IOEnv.TRANS)

VARIABLE k
NS == Len(StatesLog)
NT == Len(TransLog)

LocOf(s, u) == IF HasRole(s, u) THEN <<RoleType(s, u), RoleRank(s, u) - 1>> ELSE <<NoRole, -1>>

QFails(s) ==
  LET q == s.q IN
     (IF q.ncol = Len(s.cols) /\ Len(q.cols) = Len(s.cols) THEN {} ELSE {"q-ncol"})
\cup (IF Len(q.cols) = Len(s.cols) /\ \A i \in DOMAIN s.cols :
           LET a == q.cols[i]  c == s.cols[i] IN
             /\ a.colByUid = i - 1 /\ a.colByName = i - 1 /\ a.uidByName = c.uid /\ a.nameByUid = c.name
        THEN {} ELSE {"q-index-maps"})
\cup (IF Len(q.cols) = Len(s.cols) /\ \A i \in DOMAIN s.cols :
           LET a == q.cols[i]  c == s.cols[i] IN
             /\ a.cellsByUid = c.cells /\ a.cellsByName = c.cells /\ a.cellsArray = c.cells
             /\ a.cellsValue = c.cells /\ a.cellsValueName = c.cells
        THEN {} ELSE {"q-cells"})
\cup (IF Len(q.cols) = Len(s.cols) /\ OneRolePerCol(s) /\ RolesLive(s) /\ \A i \in DOMAIN s.cols :
           LET a == q.cols[i]  c == s.cols[i] IN
             /\ a.locByCol = LocOf(s, c.uid) /\ a.locByUid = a.locByCol /\ a.locByName = a.locByCol
             /\ a.cellsByLoc = c.cells /\ a.cellsFromLoc = c.cells /\ a.nameByLoc = c.name
             /\ a.colByLoc = i - 1 /\ a.uidByLoc = c.uid
        THEN {} ELSE {"q-roles"})
\cup (IF /\ q.allNames = [i \in DOMAIN s.cols |-> s.cols[i].name]
         /\ \A t \in Types : q.locNumber[t] = Len(s.loc[t])
         /\ RolesLive(s) => \A t \in Types :
               /\ q.namesByLoc[t] = [r \in DOMAIN s.loc[t] |-> s.cols[ColOf(s, s.loc[t][r])].name]
               /\ q.colsByLoc[t] = [r \in DOMAIN s.loc[t] |-> ColOf(s, s.loc[t][r]) - 1]
        THEN {} ELSE {"q-lists"})
\cup (IF /\ Len(q.uidcol) = s.nuid
         /\ \A u \in 0..(s.nuid - 1) : q.uidcol[u + 1] = ColOf(s, u) - 1 /\ q.uidDefined[u + 1] = (u \in Uids(s))
         /\ Range(q.allUids) = Uids(s) /\ Len(q.allUids) = Len(s.cols)
        THEN {} ELSE {"q-uids"})
\cup (IF q.nact = (IF "sel" \in Types /\ Len(s.loc["sel"]) > 0 /\ s.loc["sel"][1] \in Uids(s)
                   THEN Cardinality({e \in 1..s.nech : s.cols[ColOf(s, s.loc["sel"][1])].cells[e] \notin {0, -999}})
                   ELSE s.nech)
        THEN {} ELSE {"q-active-count"})
\* the per-sample answer (isActive) and the reported count describe the same set: a sample whose selection
\* value is 0 or undefined (-999) is masked, every other one is active
\cup (IF /\ Len(q.active) = s.nech
         /\ \A e \in 1..s.nech :
              q.active[e] = (IF "sel" \in Types /\ Len(s.loc["sel"]) > 0 /\ s.loc["sel"][1] \in Uids(s)
                             THEN (IF s.cols[ColOf(s, s.loc["sel"][1])].cells[e] \in {0, -999} THEN 0 ELSE 1)
                             ELSE 1)
        THEN {} ELSE {"q-active-list"})

Init == k = 0
Next ==
  /\ k < NS + NT
  /\ k' = k + 1
  /\ IF k' <= NS
     THEN LET s == StatesLog[k'].s
              f == ConsistentFails(s) \cup QFails(s)
          IN f = {} \/ PrintT(ToJson([kind |-> "state", id |-> StatesLog[k'].id, fails |-> f]))
     ELSE LET tr == TransLog[k' - NS]
              pre == StatesLog[tr.from].s
              post == StatesLog[tr.to].s
              f == JudgeFails(tr.c, pre, post)
          IN f = {} \/ PrintT(ToJson([kind |-> "trans", idx |-> k' - NS, fails |-> f,
                                       inrange |-> RankInRange(tr.c, pre)]))
Spec == Init /\ [][Next]_k
AllExamined == TLCGet("stats").diameter = NS + NT + 1 \/ PrintT(<<"NOT-ALL-EXAMINED", TLCGet("stats").diameter, NS + NT + 1>>)
=============================================================================
