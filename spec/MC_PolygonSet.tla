--------------------------- MODULE MC_PolygonSet ---------------------------
(* Polygon sets: every sequence of 1..MaxElems elements drawn from a pool of simple polygons,    *)
(* each with every choice of vertical limits, against all query points, all query z (none or a  *)
(* value strictly off every limit) and both rules (union / nested).  TLC                         *)
(*  - evaluates the documented rule (RefSetRule) = expected answer of Polygons::inside and of    *)
(*    db_polygon (with and without a previous selection),                                        *)
(*  - checks that the transcription of Polygons::inside with the proposed repair equals the      *)
(*    documented rule, and that the transcription of the code as it stands differs from it       *)
(*    exactly where EarlyReturnApplies (so that the known defect is delimited by the spec),      *)
(*  - emits the case.  Answer codes: 0 outside, 1 inside, 2 excluded (on the boundary of some    *)
(*    element), 3 inside AND the early return of the present code applies (known defect).        *)
EXTENDS Polygon, Json

CONSTANTS G,          \* lattice of the pool
          PoolKind,   \* "rect": all axis-parallel rectangles; "all": all simple polygons <= PoolMaxV vertices
          PoolMaxV,
          MaxElems,
          MinEmit     \* sets with fewer elements are not emitted

\* vertical limits to choose from, <<zmin, zmax>> (NoZ = no limit): none, an interval, two half-lines
ZCfgs == { <<NoZ, NoZ>>, <<2, 6>>, <<8, NoZ>>, <<NoZ, 4>> }
\* z of the query points: none (2-D query) or a value strictly off every limit
ZVals == { NoZ, 1, 3, 5, 7, 9 }

VARIABLE es

Lattice == {<<2 * i, 2 * j>> : i, j \in 0..(G - 1)}
LexLess(a, b) == a[1] < b[1] \/ (a[1] = b[1] /\ a[2] < b[2])

\* rectangles x1 < x2, y1 < y2; counter-clockwise when x1 + y1 is a multiple of 4, else clockwise
\* rectangles x1 < x2, y1 < y2 (doubled coordinates); counter-clockwise when (x1 + y1) / 2 is even,
\* else clockwise
Ev == {2 * i : i \in 0..(G - 1)}
Rects == { IF (t[1] + t[3]) % 4 = 0
           THEN << <<t[1], t[3]>>, <<t[2], t[3]>>, <<t[2], t[4]>>, <<t[1], t[4]>> >>
           ELSE << <<t[1], t[3]>>, <<t[1], t[4]>>, <<t[2], t[4]>>, <<t[2], t[3]>> >>
           : t \in {u \in Ev \X Ev \X Ev \X Ev : u[1] < u[2] /\ u[3] < u[4]} }

\* all simple polygons up to PoolMaxV vertices, one starting vertex (the smallest) and one
\* direction (second vertex smaller than the last) per polygon
AllCanon == { s \in UNION {[1..n -> Lattice] : n \in 3..PoolMaxV} :
                /\ \A i \in 2..Len(s) : LexLess(s[1], s[i])
                /\ LexLess(s[2], s[Len(s)])
                /\ SimplePolygon(s) }

Pool == IF PoolKind = "rect" THEN Rects ELSE AllCanon

NC == 2 * G + 1
QCoord(i) == IF i = 1 THEN -2 ELSE IF i = NC THEN 2 * G ELSE i - 2
NQ == NC * NC
QSeq == TLCEval([i \in 1..NQ |-> <<QCoord(((i - 1) \div NC) + 1), QCoord(((i - 1) % NC) + 1)>>])

\* 2-D truth of every pool polygon at every query point, computed once
PoolExp == TLCEval([s \in Pool |-> LET mx == MaxX(s) IN
                      TLCEval([i \in 1..NQ |-> IF OnBoundary(s, QSeq[i]) THEN 2
                                               ELSE IF RefInsideM(s, mx, QSeq[i]) THEN 1 ELSE 0])])

ZSeq == TLCEval(LET F[S \in SUBSET ZVals] == IF S = {} THEN <<>>
                      ELSE LET m == CHOOSE x \in S : \A y \in S : x <= y IN <<m>> \o F[S \ {m}]
                IN F[ZVals])

ASSUME /\ \A s \in Pool : SimplePolygon(s)
       /\ \A zc \in ZCfgs : \A z \in ZVals : z = NoZ \/ (z # zc[1] /\ z # zc[2])

Init == /\ es = <<>>
        /\ PrintT(ToJson([k |-> "meta", G |-> G, q |-> QSeq, noz |-> NoZ,
                          prev |-> [i \in 1..NQ |-> IF PrevActive(i) THEN 1 ELSE 0]]))
AddElem(s, zc) == /\ Len(es) < MaxElems
                  /\ es' = Append(es, [v |-> s, zmin |-> zc[1], zmax |-> zc[2]])
Next == \E s \in Pool, zc \in ZCfgs : AddElem(s, zc)
Spec == Init /\ [][Next]_es

\* ---- per state
In2(i) == [e \in 1..Len(es) |-> PoolExp[es[e].v][i] = 1]
Excluded(i) == \E e \in 1..Len(es) : PoolExp[es[e].v][i] = 2

Code(i, z, nested) ==
  IF Excluded(i) THEN 2
  ELSE LET in2 == In2(i) IN
       IF RefSetRule(es, in2, z, nested)
       THEN (IF EarlyReturnApplies(es, in2, z, nested) THEN 3 ELSE 1)
       ELSE 0

\* the repaired transcription is the documented rule; the present code differs exactly on code 3
Inv_SetRules ==
  \A i \in 1..NQ : Excluded(i) \/
    \A z \in ZVals : \A nested \in BOOLEAN :
      LET in2 == In2(i)
          ref == RefSetRule(es, in2, z, nested)
      IN /\ CodeSetRule(es, in2, z, nested, FALSE) = ref
         /\ CodeSetRule(es, in2, z, nested, TRUE) = (ref /\ ~EarlyReturnApplies(es, in2, z, nested))
         /\ (z = NoZ => ~EarlyReturnApplies(es, in2, z, nested))

Variants == [n \in 1..(2 * Len(ZSeq)) |->
               LET z == ZSeq[((n - 1) \div 2) + 1]
                   nested == (n % 2 = 0)
                   a == TLCEval([i \in 1..NQ |-> Code(i, z, nested)])
               IN [z |-> z, nested |-> IF nested THEN 1 ELSE 0, a |-> a,
                   \* db_polygon with flag_sel = TRUE on the data base whose previous selection is PrevActive
                   sel |-> [i \in 1..NQ |-> IF a[i] = 2 THEN 2
                                            ELSE IF a[i] = 3 /\ PrevActive(i) THEN 3
                                            ELSE DbMark(PrevActive(i), TRUE, a[i] \in {1, 3})]]]

\* construction route "file": the forms in which the set is written (who is closed, trailing separator)
Polys == [i \in 1..Len(es) |-> es[i].v]
FileForms == << [closed |-> [i \in 1..Len(es) |-> FALSE], trail |-> FALSE],
                [closed |-> [i \in 1..Len(es) |-> FALSE], trail |-> TRUE],
                [closed |-> [i \in 1..Len(es) |-> TRUE], trail |-> FALSE],
                [closed |-> [i \in 1..Len(es) |-> i < Len(es)], trail |-> FALSE],
                [closed |-> [i \in 1..Len(es) |-> i % 2 = 0], trail |-> TRUE] >>
Files == [f \in 1..Len(FileForms) |->
            [closed |-> [i \in 1..Len(es) |-> IF FileForms[f].closed[i] THEN 1 ELSE 0],
             trail |-> IF FileForms[f].trail THEN 1 ELSE 0,
             rows |-> FileRows(Polys, FileForms[f].closed, FileForms[f].trail)]]
\* every form describes the set itself: the answers expected from the set read from the file are those of
\* the API-built set without vertical limits (the variants with z = NoZ)
Inv_Files == Len(es) >= 1 => \A f \in 1..Len(FileForms) : FileDescribes(Files[f].rows, Polys)

Inv_Emit == (Len(es) >= MinEmit /\ Len(es) >= 1) =>
              PrintT(ToJson([k |-> "set", e |-> es, var |-> Variants, files |-> Files]))
=============================================================================
