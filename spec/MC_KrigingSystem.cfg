SPECIFICATION Spec
CONSTANTS
  MaxNvar = 2
  MaxNs = 3
  Drifts = {"SK", "OK", "LIN", "EXT"}
  WithVerr = {FALSE, TRUE}
  Targets = {"point", "block"}
INVARIANT AlgEqualsDef Symmetric Count HasUniversality PermuteLaw ExactLaw UniversalityLaw
CONSTRAINT Emit
CHECK_DEADLOCK FALSE
