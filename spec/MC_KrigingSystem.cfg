SPECIFICATION Spec
CONSTANTS
  MaxNvar = 2
  MaxNs = 3
  Drifts = {"SK", "OK", "LIN", "EXT", "QUAD"}
  WithVerr = {FALSE, TRUE}
  Targets = {"point", "block"}
  Ndims = {1, 2, 3}
  BigNs = {7}
INVARIANT AlgEqualsDef Symmetric Count HasUniversality PermuteLaw ExactLaw UniversalityLaw
CONSTRAINT Emit
CHECK_DEADLOCK FALSE
