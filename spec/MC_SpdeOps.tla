---------------------------- MODULE MC_SpdeOps ----------------------------
(* Enumeration of the configurations and of the exact polynomial cases of SpdeOps within the       *)
(* constants of a tier.  INVARIANT Inv_C15 = every configuration carries obligations for every      *)
(* clause (Covered) and the exact laws of the polynomial part hold (PolyOk); CONSTRAINT Emit prints *)
(* the table of obligations, every configuration and every polynomial case as JSON.                 *)
EXTENDS SpdeOps, Json

VARIABLE cs
Init == LET K == Kept IN
        cs \in { ConfigCase(c) : c \in K } \cup PolyCases
                \cup { [k |-> "obligations", list |-> SetToSeqByName(Obligations(c) \cup StochasticObligations(c))] : c \in {CHOOSE x \in K : TRUE} }
Next == FALSE /\ cs' = cs
Spec == Init /\ [][Next]_cs

Inv_C15 == cs.k = "obligations" \/ CaseOk(cs)
\* the table of obligations is the same for every configuration of the tier
SameTable == LET K == Kept  t == Obligations(CHOOSE x \in K : TRUE) IN \A c \in K : Obligations(c) = t
ASSUME SameTable
Emit == PrintT(ToJson(cs))

-----------------------------------------------------------------------------
MC(fam, nx) == [fam |-> fam, nx |-> nx]

\* the unstructured meshes are those of SpdeMesh (same tier): their apices and simplices come from its emission
MeshQuick(nd) == IF nd = 1 THEN { MC("turbo", <<6>>), MC("std_pert", <<3>>) }
                 ELSE IF nd = 2 THEN { MC("turbo", <<4, 3>>), MC("turbopol", <<4, 4>>), MC("std_alt", <<3, 3>>), MC("std_pert", <<3, 3>>),
                                       MC("turbomask", <<3, 3>>) }
                 ELSE { MC("turbo", <<3, 3, 3>>), MC("std_alt", <<3, 3, 3>>) }
MeshThor(nd)  == MeshQuick(nd) \cup
                 (IF nd = 1 THEN { MC("turbo", <<9>>), MC("std_alt", <<4>>) }
                  ELSE IF nd = 2 THEN { MC("turbo", <<6, 5>>), MC("std_alt2", <<4, 3>>), MC("std_same", <<4, 4>>) }
                  ELSE { MC("turbo", <<4, 3, 3>>), MC("std_pert", <<3, 3, 3>>), MC("std_same", <<3, 3, 3>>), MC("turbomask", <<4, 3, 3>>) })

RotQuick(nd) == IF nd = 1 THEN { <<0>> } ELSE IF nd = 2 THEN { <<0, 0>>, <<4, 0>> } ELSE { <<0, 0, 0>>, <<4, 0, 0>> }
RotThor(nd)  == IF nd = 1 THEN { <<0>> } ELSE IF nd = 2 THEN { <<0, 0>>, <<1, 0>>, <<4, 0>> }
                ELSE { <<0, 0, 0>>, <<1, 0, 0>>, <<4, 0, 0>>, <<0, 0, 4>> }

\* 2 alpha: integer alpha = 1, 2, 3 where the Matern smoothness stays positive, and half-integer alpha
AlphaAll(nd)   == IF nd = 1 THEN {2, 4, 6, 3, 5} ELSE IF nd = 2 THEN {4, 6, 3, 5} ELSE {4, 6, 5}
AlphaQuick(nd) == IF nd = 1 THEN {2, 4, 6, 3} ELSE IF nd = 2 THEN {4, 6, 3} ELSE {4, 6, 5}
AnisoAll(nd)   == IF nd = 1 THEN {"iso"} ELSE {"iso", "aniso", "rotaniso"}

\* a fixed "hash" of the configuration (weighted sum of the codes of its fields) used to thin the product
Code(x, seq) == CHOOSE i \in 1..Len(seq) : seq[i] = x
H(c) == 3 * c.nd + 5 * c.alpha2 + 7 * c.sill2 + 11 * c.mesh.nx[1] + 13 * (IF c.rot[1] = 0 THEN 0 ELSE IF c.rot[1] = 1 THEN 1 ELSE 2)
        + 17 * Code(c.aniso, <<"iso", "aniso", "rotaniso">>) + 19 * Code(c.layout, <<"spread", "cluster", "nodes", "outside">>)
        + 23 * Code(c.verr, <<"const", "distinct", "extreme">>) + 29 * c.nstruct + 31 * Code(c.drift, <<"none", "const", "linear">>)
        + 41 * Code(c.mesh.fam, <<"turbo", "turbopol", "turbomask", "std_same", "std_alt", "std_alt2", "std_pert">>)
\* quick: one configuration out of 53 of the product, chosen by a fixed rule; thorough: one out of 11
KeepQuick(c) == H(c) % 53 = 0
KeepThor(c)  == H(c) % 11 = 0
KeepAll(c)   == TRUE

Coefs == { <<1, 1>>, <<1, 2, 1>>, <<1, 3, 3, 1>>, <<2, 0, -1>>, <<-1, 2, 0, 1>>, <<3>>, <<0, 0, 0, 0, 1>>, <<1, -1, 1, -1, 1, -1>> }
Diags == { << <<0, 1, 2, -1, -2>>, <<1, 2, -1, 3, 1>> >>, << <<2, 2, 2>>, <<1, 0, -2>> >>, << <<1>>, <<5>> >>,
           << <<-2, -1, 0, 1, 2, 1, 0>>, <<1, 1, 1, 1, 1, 1, 1>> >> }
=============================================================================
