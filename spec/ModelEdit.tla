------------------------------ MODULE ModelEdit ------------------------------
(***************************************************************************)
(* Editing the list of basic structures of a Model (property C10: an object  *)
(* updated incrementally answers as a freshly built one with the same final  *)
(* content).                                                                 *)
(*                                                                         *)
(* Definition  = value semantics: the model is a sequence of structures      *)
(*               [t |-> type, id |-> identity (carried by the sill),          *)
(*                f |-> filtered].                                            *)
(* Algorithm   = transcription of ACovAnisoList: TWO parallel vectors, the    *)
(*               structures (_covs) and their filtering flags (_filtered),    *)
(*               edited side by side by addCov / delCov / delAllCov /         *)
(*               setFiltered and copied together by the copy constructor.     *)
(* TLC checks  Agree (the two vectors describe the sequence of the            *)
(* definition) on every reachable state, and emits every history with the    *)
(* expected content, list of active structures and all-active flag after     *)
(* each operation; the harness replays it on a real Model and also compares   *)
(* with a Model built afresh from the final content.                          *)
(***************************************************************************)
EXTENDS Integers, Sequences, FiniteSets, TLC, Json

CONSTANTS MaxLen, MaxCov
Types == {"NUGGET", "SPHERICAL", "EXPONENTIAL"}

VARIABLES model,            \* definition: sequence of [t, id, f]
          covs, filt,       \* algorithm: the two parallel vectors
          nextId, hist
vars == <<model, covs, filt, nextId, hist>>

Init == model = <<>> /\ covs = <<>> /\ filt = <<>> /\ nextId = 1 /\ hist = <<>>

RemoveAt(s, i) == SubSeq(s, 1, i - 1) \o SubSeq(s, i + 1, Len(s))
Active(m) == [i \in 1..Len(m) |-> m[i].f]
Expect(m) == [content |-> [i \in 1..Len(m) |-> [t |-> m[i].t, id |-> m[i].id, f |-> m[i].f]],
              active  |-> LET RECURSIVE Act(_) Act(k) == IF k > Len(m) THEN <<>>
                                                        ELSE (IF m[k].f THEN <<>> ELSE <<k - 1>>) \o Act(k + 1) IN Act(1),
              allactive |-> \A i \in 1..Len(m) : ~m[i].f]
Log(rec) == hist' = Append(hist, [rec EXCEPT !.expect = Expect(model')])
E == [content |-> <<>>, active |-> <<>>, allactive |-> TRUE]

Add(t) == /\ Len(model) < MaxCov
          /\ model' = Append(model, [t |-> t, id |-> nextId, f |-> FALSE])
          /\ covs' = Append(covs, [t |-> t, id |-> nextId]) /\ filt' = Append(filt, FALSE)     \* addCov: push_back on both
          /\ nextId' = nextId + 1
          /\ Log([op |-> "add", t |-> t, id |-> nextId, expect |-> E])
Del(i) == /\ i \in 1..Len(model)
          /\ model' = RemoveAt(model, i)
          /\ covs' = RemoveAt(covs, i) /\ filt' = RemoveAt(filt, i)                              \* delCov: erase at icov in both
          /\ UNCHANGED nextId
          /\ Log([op |-> "del", i |-> i - 1, expect |-> E])
DelAll == /\ Len(model) > 0
          /\ model' = <<>> /\ covs' = <<>> /\ filt' = <<>> /\ UNCHANGED nextId
          /\ Log([op |-> "delall", expect |-> E])
SetFiltered(i, b) == /\ i \in 1..Len(model) /\ model[i].f # b
                     /\ model' = [model EXCEPT ![i].f = b]
                     /\ filt' = [filt EXCEPT ![i] = b] /\ UNCHANGED <<covs, nextId>>
                     /\ Log([op |-> "setfiltered", i |-> i - 1, v |-> b, expect |-> E])
\* the object is replaced by a copy of itself (copy constructor / clone): both vectors are copied
Clone == /\ Len(model) > 0 /\ UNCHANGED <<model, covs, filt, nextId>>
         /\ Log([op |-> "clone", expect |-> E])

Next == /\ Len(hist) < MaxLen
        /\ \/ \E t \in Types : Add(t)
           \/ \E i \in 1..MaxCov : Del(i)
           \/ \E i \in 1..MaxCov : \E b \in BOOLEAN : SetFiltered(i, b)
           \/ DelAll \/ Clone
Spec == Init /\ [][Next]_vars

\* the two parallel vectors describe the sequence of the definition
Agree == /\ Len(covs) = Len(model) /\ Len(filt) = Len(model)
         /\ \A i \in 1..Len(model) : covs[i].t = model[i].t /\ covs[i].id = model[i].id /\ filt[i] = model[i].f
\* identities are never re-used, so a structure can be followed through the history
Distinct == \A i, j \in 1..Len(model) : i # j => model[i].id # model[j].id
EmitScripts == Len(hist) < MaxLen \/ PrintT(ToJson([hist |-> hist]))
=============================================================================
