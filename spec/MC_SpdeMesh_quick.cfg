SPECIFICATION Spec
CONSTANTS
  NDims = {1, 2, 3}
  NxVecs <- NxQuick
  Families <- AllFamilies
  GeomSpecs <- GeomsQuick
INVARIANT Inv_C15
CONSTRAINT Emit
CHECK_DEADLOCK FALSE
