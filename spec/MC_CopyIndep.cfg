SPECIFICATION Spec
CONSTANT MaxLen = 2
PROPERTY Independent
CONSTRAINT EmitScripts
CHECK_DEADLOCK FALSE
