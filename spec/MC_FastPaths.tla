-------------------------- MODULE MC_FastPaths --------------------------
(* Enumerates the configurations of the pairs named in Pairs (option combinations x *)
(* abstract inputs), checks on the model that both members of each pair denote the   *)
(* same abstract observation whenever the side condition holds, and prints every     *)
(* configuration (with its expected index lists / selected sets / flags) as JSON for  *)
(* the harness.  One state per configuration; stage 0 states spread the enumeration   *)
(* over TLC's workers.                                                                *)
EXTENDS FastPaths, Json

CONSTANTS Pairs, Models

VARIABLE st
Init == \E p \in Pairs : \E key \in KeysOf(p, Models) : st = [stage |-> 0, pair |-> p, key |-> key]
Next == /\ st.stage = 0
        /\ \E c \in PartOf(st.pair, st.key) : st' = [stage |-> 1, pair |-> st.pair, c |-> c]
Spec == Init /\ [][Next]_st

Inv_PairHolds == st.stage = 1 /\ Promised(st.c) => Holds(st.c)
\* the transcription of the ball-tree migration leaves the definition exactly in the two documented
\* situations (design-level deviations, reported as known findings when the real code shows them)
Inv_MigDeviationsClassified ==
  st.stage = 1 /\ st.pair = "ball_mig" /\ Promised(st.c) => MigDeviations(st.c) \subseteq {"masked_nearest", "dmax_nearest_outside"}
\* a ball (equal components, dist_type 2) never refuses the closest sample while accepting a farther one;
\* a box does, even with equal components (the "corner" geometry must exist in the catalogue)
Inv_NoCornerForBall ==
  st.stage = 1 /\ st.pair = "ball_mig" /\ st.c.dmax.kind = "l2" /\ DmaxClass(st.c.dmax) = "equal"
     => \A i \in MigActiveTargets(st.c) : ~MigCorner(st.c, st.c.tgt[i])
Emit == st.stage = 0 \/ PrintT(ToJson(EmitRec(st.c)))
=============================================================================
