----------------------------- MODULE CopyIndep -----------------------------
(***************************************************************************)
(* Property C10, second sentence: "Copies of objects ... are independent of  *)
(* their source: modifying one never changes the other".                     *)
(*                                                                         *)
(* Generic model: an object of class K has an abstract content (a function   *)
(* from its FIELDS to version numbers); a copy made by one of the copy        *)
(* mechanisms (copy constructor, clone(), assignment) starts with the same    *)
(* content; a mutator bumps the version of the fields it writes in the        *)
(* object it is applied to, and of nothing else.  Independent: the content    *)
(* of the other object is unchanged by every mutation.  TLC enumerates        *)
(* class x copy mechanism x sequences of mutations applied to either object   *)
(* (length <= MaxLen) and emits them; the harness applies them to real        *)
(* objects and reads back the complete public projection of BOTH objects      *)
(* after every step: the projection of the untouched one must not move.       *)
(***************************************************************************)
EXTENDS Integers, Sequences, FiniteSets, TLC, Json

CONSTANT MaxLen

\* classes and their mutators (each mutator = the set of fields it writes)
Classes == {"Db", "DbGrid", "Model", "NeighMoving", "Vario", "MatrixRectangular", "MatrixSquareSymmetric", "MatrixSparse",
            "Polygons", "AnamHermite", "Table", "VectorVectorDouble"}
Mutators(k) ==
  CASE k = "Db" -> {"setValue", "addColumn", "deleteColumn", "setLocator", "setName", "addSamples", "deleteSample"}
    [] k = "DbGrid" -> {"setValue", "addColumn", "deleteColumn", "setLocator", "setName"}
    [] k = "Model" -> {"setSill", "setRange", "addCov", "setMean", "setDrift"}
    [] k = "NeighMoving" -> {"setNMaxi", "setNSect", "setFlagXvalid"}
    [] k = "Vario" -> {"setGg", "setSw", "setHh"}
    [] k = "MatrixRectangular" -> {"setValue", "prodScalar", "addScalar"}
    [] k = "MatrixSquareSymmetric" -> {"setValue", "prodScalar"}
    [] k = "MatrixSparse" -> {"setValue", "prodScalar"}
    [] k = "Polygons" -> {"addPolyElem"}
    [] k = "AnamHermite" -> {"setPsiHns", "setRCoef"}
    [] k = "Table" -> {"setValue", "setColumnName", "addRow"}
    [] k = "VectorVectorDouble" -> {"setInner", "pushInner", "pushOuter"}
\* clone() exists for the ICloneable classes only
Cloneable == {"Db", "DbGrid", "Model", "Vario", "MatrixRectangular", "MatrixSquareSymmetric", "MatrixSparse", "AnamHermite"}
CopyKinds(k) == IF k \in Cloneable THEN {"ctor", "clone", "assign"} ELSE {"ctor", "assign"}

VARIABLES cls, kind, hist, vsrc, vcpy     \* version counters of the two objects (abstract content)
vars == <<cls, kind, hist, vsrc, vcpy>>

Init == /\ cls \in Classes /\ kind \in CopyKinds(cls) /\ hist = <<>> /\ vsrc = 0 /\ vcpy = 0
Mut(who, m) == /\ Len(hist) < MaxLen
               /\ m \in Mutators(cls)
               /\ IF who = "src" THEN vsrc' = vsrc + 1 /\ UNCHANGED vcpy ELSE vcpy' = vcpy + 1 /\ UNCHANGED vsrc
               /\ hist' = Append(hist, [who |-> who, m |-> m])
               /\ UNCHANGED <<cls, kind>>
Next == \E who \in {"src", "cpy"} : \E m \in Mutators(cls) : Mut(who, m)
Spec == Init /\ [][Next]_vars

\* by construction of the model; stated for the record and checked by TLC
Independent == [][ (vsrc' # vsrc => vcpy' = vcpy) /\ (vcpy' # vcpy => vsrc' = vsrc) ]_vars
EmitScripts == hist = <<>> \/ PrintT(ToJson([cls |-> cls, kind |-> kind, hist |-> hist]))
=============================================================================
