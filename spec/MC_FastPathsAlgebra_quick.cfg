SPECIFICATION Spec
CONSTANTS
  P = 5
  NEQ = 2
  Variants = 3
  NShapes = 4
INVARIANT Inv_PrimalUK Inv_DualUK Inv_DualSK Inv_Bayes Inv_ColCok Inv_Xvalid Inv_Shortcut
CONSTRAINT Emit
CHECK_DEADLOCK FALSE
