--------------------------- MODULE MatrixAlgChol ---------------------------
(***************************************************************************)
(* C11, factorisations.  Cases with exact expected values:                 *)
(*  - Cholesky: A = L L^T from an integer lower-triangular L with positive *)
(*    diagonal.  The factor of A is L (unique), so L x, L^T x, the solves   *)
(*    L y = b, L^T y = b, A y = b (right-hand sides built as images of an   *)
(*    integer y), det A = (prod l_ii)^2 (the log-determinant is             *)
(*    2 sum log l_ii), L^-1 = adj(L) / det(L), the triangular products and  *)
(*    the diagonal of A^-1 are exact integers / rationals.                  *)
(*    A factorisation with a permutation (sparse back-ends) is bound by the *)
(*    identities  M M^T = A,  M^-1 M = I,  X^T A X = I for X = M^-T.        *)
(*  - LU without pivoting: A = Lu U, unit lower Lu, non singular upper U.   *)
(*  - eigen-decomposition of symmetric matrices: spectra known exactly for  *)
(*    the constructed cases; all cases carry trace and determinant for the  *)
(*    residual identities  A V = V D,  V^T V = I,  sum = trace, prod = det; *)
(*    generalised problem  A V = B V D,  V^T B V = I,  sum = tr(B^-1 A).     *)
(* The ASSUMEs check the construction itself (TLC evaluates them).          *)
(***************************************************************************)
EXTENDS MatrixAlgFam, Json, IOUtils, SequencesExt

Sizes == 1..3
LAll(n) == LFam(n) \cup {Mat(n, n, LAMBDA i, j : IF i = j THEN 2 ELSE IF i > j /\ (i + j) % 2 = 1 THEN -1 ELSE 0)}
YVecs(n) == {Vec(n, LAMBDA k : k + 1), Vec(n, LAMBDA k : Sign(k) * (2 * k - 1))}
RhsMat(n) == Idx2(n, 2)          \* n x 2
LhsMat(n) == Idx2(2, n)          \* 2 x n
SqMat(n) == Idx2(n, n)

DiagSeq(M) == [i \in 1..NR(M) |-> M[i][i]]
ProdSeq(s) == Prod(Len(s), LAMBDA k : s[k])

CholCase(L, y) ==
  LET n == NR(L)
      A == Spd(L)
      S == Sym2(n)
  IN [kind |-> "chol", n |-> n, L |-> L, A |-> A, y |-> y,
      Ly |-> MatVec(L, y), Lty |-> MatVec(Tr(L), y), Ay |-> MatVec(A, y),
      diagL |-> DiagSeq(L), det |-> ProdSeq(DiagSeq(L)) * ProdSeq(DiagSeq(L)),
      Linv |-> [m |-> Adj(L), d |-> Det(L)],
      Ainv |-> [m |-> Adj(A), d |-> Det(A)],
      R |-> RhsMat(n), AR |-> MatMul(A, RhsMat(n)),
      \* matProductInPlace: 0 TU*a, 1 TL*a (a = R, n x 2); 2 a*TU, 3 a*TL (a = Q, 2 x n); 4 t(a)*TU, 5 t(a)*TL (a = W, n x n)
      Q |-> LhsMat(n), W |-> SqMat(n),
      P0 |-> MatMul(Tr(L), RhsMat(n)), P1 |-> MatMul(L, RhsMat(n)),
      P2 |-> MatMul(LhsMat(n), Tr(L)), P3 |-> MatMul(LhsMat(n), L),
      P4 |-> MatMul(Tr(SqMat(n)), Tr(L)), P5 |-> MatMul(Tr(SqMat(n)), L),
      \* normMatInPlace: 0 TL*S*TU, 1 TU*S*TL (S symmetric), and with S absent (identity)
      S |-> S, N0 |-> MatMul(MatMul(L, S), Tr(L)), N1 |-> MatMul(MatMul(Tr(L), S), L),
      N0I |-> MatMul(L, Tr(L)), N1I |-> MatMul(Tr(L), L)]
CholCases == UNION {{CholCase(L, y) : L \in LAll(n), y \in YVecs(n)} : n \in Sizes}

ASSUME \A c \in CholCases :
  /\ IsSPD(c.A) /\ c.det = Det(c.A) /\ c.det > 0
  /\ MatMul(c.L, c.Linv.m) = Scal(Ident(c.n), c.Linv.d)
  /\ MatMul(c.A, c.Ainv.m) = Scal(Ident(c.n), c.Ainv.d)
  /\ MatVec(c.L, c.Lty) = c.Ay
  /\ \A i, j \in 1..c.n : i < j => c.L[i][j] = 0

\* ---- LU without pivoting
UnitLower(n) == {L1(n), Mat(n, n, LAMBDA i, j : IF i = j THEN 1 ELSE IF i > j THEN Sign(i) * (i + 2 * j) ELSE 0)}
Upper(n) == {U1(n), Mat(n, n, LAMBDA i, j : IF i = j THEN (IF i = 2 THEN -1 ELSE i + 1) ELSE IF i < j THEN 3 * i - j ELSE 0)}
LUCase(Lu, U) == [kind |-> "lu", n |-> NR(Lu), Lu |-> Lu, U |-> U, A |-> MatMul(Lu, U)]
LUCases == UNION {{LUCase(Lu, U) : Lu \in UnitLower(n), U \in Upper(n)} : n \in Sizes}
ASSUME \A c \in LUCases : Det(c.A) = ProdSeq(DiagSeq(c.U)) /\ Det(c.A) # 0

\* ---- symmetric eigen problems
JOnes(n) == Const(n, n, 1)
KnownSpectra ==
  {<<Diag(<<3>>), <<3>>>>, <<Diag(<<2, 5>>), <<5, 2>>>>, <<Diag(<<5, 2>>), <<5, 2>>>>,
   <<Diag(<<1, 4, -2>>), <<4, 1, -2>>>>, <<Diag(<<2, 2, 7>>), <<7, 2, 2>>>>,
   <<Plus(Scal(Ident(2), 3), Scal(JOnes(2), 2)), <<7, 3>>>>,
   <<Plus(Scal(Ident(3), 2), Scal(JOnes(3), 1)), <<5, 2, 2>>>>,
   <<Plus(Scal(Ident(3), -1), Scal(JOnes(3), 2)), <<5, -1, -1>>>>,
   <<(<<(<<2, 2>>), (<<2, 5>>)>>), <<6, 1>>>>,
   <<(<<(<<1, 2>>), (<<2, 1>>)>>), <<3, -1>>>>,
   <<(<<(<<2, 0, 0>>), (<<0, 3, 4>>), (<<0, 4, 9>>)>>), <<11, 2, 1>>>>,
   <<(<<(<<0, 1, 0>>), (<<1, 0, 0>>), (<<0, 0, 4>>)>>), <<4, 1, -1>>>>}
OtherSym == UNION {{Sym1(n), Sym2(n)} \cup {Spd(L) : L \in LFam(n)} : n \in 2..3}
EigCase(S, spec) == [kind |-> "eigen", n |-> NR(S), A |-> S, known |-> spec # <<>>, spectrum |-> spec,
                     tr |-> Trace(S), det |-> Det(S), spd |-> IsSPD(S),
                     inv |-> [m |-> Adj(S), d |-> IF Det(S) = 0 THEN 1 ELSE Det(S)]]
EigCases == {EigCase(p[1], p[2]) : p \in KnownSpectra} \cup {EigCase(S, <<>>) : S \in OtherSym}
\* every announced eigenvalue is a root of the characteristic polynomial, with the right sum and product
ASSUME \A p \in KnownSpectra :
  LET S == p[1]  sp == p[2]  n == NR(S) IN
    /\ IsSym(S) /\ Len(sp) = n
    /\ \A k \in 1..n : Det(Plus(S, Scal(Ident(n), -sp[k]))) = 0
    /\ Sum(n, LAMBDA k : sp[k]) = Trace(S) /\ ProdSeq(sp) = Det(S)
    /\ \A k \in 1..(n - 1) : sp[k] >= sp[k + 1]

GenEigCase(S, B) == [kind |-> "geneigen", n |-> NR(S), A |-> S, B |-> B,
                     trnum |-> Trace(MatMul(Adj(B), S)), trden |-> Det(B),
                     detnum |-> Det(S), detden |-> Det(B)]
GenEigCases == UNION {{GenEigCase(S, Spd(L)) : S \in {Sym1(n), Sym2(n)}, L \in {L1(n), L3(n)}} : n \in 2..3}

Cases == SetToSeq(CholCases) \o SetToSeq(LUCases) \o SetToSeq(EigCases) \o SetToSeq(GenEigCases)
ASSUME JsonSerialize(IOEnv.OUT, Cases)
ASSUME PrintT(<<"CASES", Cardinality(CholCases), Cardinality(LUCases), Cardinality(EigCases), Cardinality(GenEigCases)>>)

VARIABLE z
Spec == z = 0 /\ [][UNCHANGED z]_z
=============================================================================
