---------------------------- MODULE MatrixAlgFam ----------------------------
(***************************************************************************)
(* Families of initial contents for C11.  They are chosen so that any      *)
(* index, stride, triangle or transposition mistake changes a result:      *)
(* all entries of an index-coded matrix are distinct, the two codings use  *)
(* different strides, the sparse patterns have empty rows and columns.     *)
(***************************************************************************)
EXTENDS MatrixAlg

Shapes == {<<r, c>> : r \in 1..3, c \in 1..3}

\* index-coded matrices
Idx1(r, c) == Mat(r, c, LAMBDA i, j : 1 + (i - 1) * c + (j - 1))
Idx2(r, c) == Mat(r, c, LAMBDA i, j : Sign(i + j) * (1 + 3 * (i - 1) + 4 * (j - 1)))   \* coprime strides, signs
\* every entry divisible by 2, 3 and 4 (exact quotients for divideRow / divideColumn)
Div12(r, c) == Scal(Idx1(r, c), 12)
\* identity and scaled identity
KId(n, k) == Scal(Ident(n), k)
\* all 0/1 matrices of a shape
ZeroOne(r, c) == {Mat(r, c, LAMBDA i, j : f[<<i, j>>]) : f \in [(1..r) \X (1..c) -> {0, 1}]}
\* sparse patterns
SpA(r, c) == Mat(r, c, LAMBDA i, j : IF (i + j) % 2 = 0 THEN Idx1(r, c)[i][j] ELSE 0)        \* checkerboard
SpB(r, c) == Mat(r, c, LAMBDA i, j :                                                          \* empty last row (r >= 2)
                 IF r >= 2 /\ i = r THEN 0
                 ELSE IF i = j \/ (i = 1 /\ j = c) THEN Idx2(r, c)[i][j] ELSE 0)
SpC(r, c) == Mat(r, c, LAMBDA i, j :                                                          \* empty first column,
                 IF j = 1 /\ c >= 2 THEN 0                                                    \* one non-zero per row
                 ELSE IF j = ((i % c) + 1) \/ c = 1 THEN 2 + i + 3 * j ELSE 0)
SpD(r, c) == Mat(r, c, LAMBDA i, j :                                                          \* empty last column and
                 IF (j = c /\ c >= 2) \/ (i = 1 /\ r >= 2) THEN 0 ELSE Idx1(r, c)[i][j])      \* empty first row
\* symmetric index-coded matrices
Sym1(n) == Mat(n, n, LAMBDA i, j : LET a == IF i < j THEN i ELSE j  b == IF i < j THEN j ELSE i
                                   IN 1 + 3 * (a - 1) + (b - 1))
Sym2(n) == Mat(n, n, LAMBDA i, j : LET a == IF i < j THEN i ELSE j  b == IF i < j THEN j ELSE i
                                   IN Sign(a + b) * (2 + (a - 1) + 4 * (b - 1)))
\* lower triangular integer factors with positive diagonal, and the matrices L L^T
L1(n) == Mat(n, n, LAMBDA i, j : IF i >= j THEN i - j + 1 ELSE 0)                      \* unit diagonal: det 1
L2(n) == Mat(n, n, LAMBDA i, j : IF i = j THEN i + 1 ELSE IF i > j THEN Sign(i + j) * (i + j - 1) ELSE 0)
L3(n) == Mat(n, n, LAMBDA i, j : IF i = j THEN 4 - i ELSE IF i = j + 1 THEN 2 ELSE 0)  \* banded (sparse) factor
LFam(n) == {L1(n), L2(n), L3(n)}
Spd(L) == MatMul(L, Tr(L))
\* unimodular (integer inverse) and general non singular matrices
U1(n) == Mat(n, n, LAMBDA i, j : IF i <= j THEN j - i + 1 ELSE 0)
Uni(n) == MatMul(L1(n), U1(n))
NonSing(n) == AddDiag(Idx2(n, n), 3)

\* --------------------------------------------------------------------------
\* contents of register A by level
FamFull(r, c) ==
     {Idx1(r, c), Idx2(r, c), Div12(r, c), SpA(r, c), SpB(r, c), SpC(r, c), SpD(r, c)}
\cup (IF r = c THEN {KId(r, 1), KId(r, 3), Sym1(r), Sym2(r), Uni(r), NonSing(r)} \cup {Spd(L) : L \in LFam(r)} ELSE {})
\cup (IF r <= 2 /\ c <= 2 THEN ZeroOne(r, c) ELSE {})
FamReduced(r, c) ==
     {Idx1(r, c)}
\cup (IF r >= 2 /\ c >= 2 THEN {SpB(r, c)} ELSE {})
\cup (IF r = c /\ r >= 2 THEN {Sym1(r), Spd(L2(r))} ELSE {})
\* contents inflated by the Kronecker laws (thread independence): non-square, square, symmetric, sparse, L L^T
FamInflate(r, c) == (IF <<r, c>> \in {<<2, 3>>, <<3, 2>>, <<3, 3>>, <<1, 3>>} THEN {Idx1(r, c)} ELSE {})
               \cup (IF r = 3 /\ c = 3 THEN {Sym1(3), Spd(L2(3)), SpB(3, 3)} ELSE {})
FamTiny(r, c) == IF r = 2 /\ c = 3 THEN {Idx1(r, c)} ELSE IF r = 2 /\ c = 2 THEN {Sym1(2)} ELSE {}

\* second operand: same shape (sums, A B^T, A^T B) and transposed shape (A B, A^T B^T); symmetric
\* partner for the symmetric contents so that the symmetric storage holds both registers
Companions(a) ==
  LET r == NR(a)  c == NC(a) IN
  IF IsSym(a) /\ r >= 2 THEN {IF a = Sym2(r) THEN Sym1(r) ELSE Sym2(r), SpA(c, r)}
  ELSE {IF a = Idx2(r, c) THEN Idx1(r, c) ELSE Idx2(r, c)}
       \cup (IF r # c THEN {IF a = SpA(r, c) THEN Idx2(c, r) ELSE SpA(c, r)} ELSE {SpB(r, c)})
\* vector register: length = number of rows or number of columns; entries 2, 3, 4 (exact divisors of the
\* Div12 family) and 0, 1, -3 (the special values 0 and 1, a negative value)
SpecialVec == <<0, 1, -3>>
VecsFor(a) == {Vec(n, LAMBDA k : k + 1) : n \in {NR(a), NC(a)}} \cup {Vec(n, LAMBDA k : SpecialVec[k]) : n \in {NR(a), NC(a)}}

InitStates(level) ==
  LET fam(r, c) == CASE level = "full" -> FamFull(r, c) [] level = "reduced" -> FamReduced(r, c)
                        [] level = "inflate" -> FamInflate(r, c) [] OTHER -> FamTiny(r, c)
      as == UNION {fam(sh[1], sh[2]) : sh \in Shapes}
  IN UNION {{[A |-> QM(a), B |-> QM(b), v |-> QV(x)] : b \in Companions(a), x \in VecsFor(a)} : a \in as}
=============================================================================
