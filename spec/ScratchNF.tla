---- MODULE ScratchNF ----
EXTENDS NeutralFile, Json, IOUtils, SequencesExt, TLCExt
Picks == ndJsonDeserialize(IOEnv.PICKS)
B == LET p == Picks[1]  o == Instance(p.c, p.s, p.d) IN [c |-> p.c, o |-> o, L |-> FileW(p.c, o)]
VARIABLE x
Mode == IOEnv.MODE
T(j) == CASE Mode = "validreal" -> ReadFnl(B.c, B.L, "real", TRUE).ok
          [] Mode = "write" -> Len(FileW(B.c, B.o)) > j - 1000
          [] Mode = "inst" -> Instance(Picks[1].c, Picks[1].s, Picks[1].d) # <<j>>
Init == x = 0
Next == x < 100 /\ x' = x + 1 /\ T(x')
Spec == Init /\ [][Next]_x
====
