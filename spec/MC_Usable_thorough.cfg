\* the largest layout of the thorough tier: 2 variables, selection column, <= 4 samples (69 905 states)
SPECIFICATION Spec
CONSTANTS
  MaxN = 4
  NVar = 2
  SelDom = {"on", "off"}
  CDom = {TRUE, FALSE}
  FDom = {TRUE}
  VDom = {TRUE}
  HasF = FALSE
  HasV = FALSE
  RunOps = {"krig_u", "krig_m", "krig_mb", "neigh_u", "neigh_m", "neigh_mb", "xvalid_u", "xvalid_m", "vario", "vario_cov", "stat", "stat_iso", "cov", "cov_sym", "drift", "simtub", "simtub_pt", "simtub_exp", "migrate", "migrate_ball", "migrate_grid", "migrate_fill", "reduce", "cov_req", "cov_sym_req", "drift_req", "ranks_req", "krig_on", "simtub_on", "simtub_on_grid", "invdist", "nearest", "movave", "movmed", "lstsqr", "avgcov", "global_arith", "global_krig"}
  EmitMin = 1
INVARIANT ModelImplementsReduce ReduceIsSound ReduceVarIsSound ReduceExtremes
CONSTRAINT Emit
CHECK_DEADLOCK FALSE
