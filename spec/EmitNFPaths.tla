--------------------------- MODULE EmitNFPaths ---------------------------
(* Writes the file-name cases of NeutralFile.tla (container / prefix settings x kinds of names) with the model's     *)
(* verdict (does createFromNF look where dumpToNF wrote?) for the run against the real library.                       *)
EXTENDS NeutralFile, Json, IOUtils
ASSUME JsonSerialize(IOEnv.OUT, PathCases)
VARIABLE x
Spec == x = 0 /\ [][UNCHANGED x]_x
=============================================================================
