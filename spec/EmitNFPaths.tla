--------------------------- MODULE EmitNFPaths ---------------------------
(* Writes the file-name cases of NeutralFile.tla (container / prefix settings x kinds of names) with the model's     *)
(* verdict (does createFromNF look where dumpToNF wrote?) for the run against the real library, and the sessions over  *)
(* names that begin with the prefix (write distinct objects under x, Px, PPx, P, read each back under its own name).   *)
EXTENDS NeutralFile, Json, IOUtils
\* the law of the sessions over names that begin with the prefix holds on the model of buildFileName
ASSUME PathSessionLaw
ASSUME JsonSerialize(IOEnv.OUT, [cases |-> PathCases, sessions |-> PathSessions])
VARIABLE x
Spec == x = 0 /\ [][UNCHANGED x]_x
=============================================================================
