-------------------------- MODULE TraceFitContract --------------------------
(* Judges the outcomes recorded from the REAL fitting procedures (harness     *)
(* fit_run) against the contract of FitContract.tla.  Every line of the log   *)
(* is  [req |-> concrete request, out |-> recorded outcome]  or               *)
(* [req, crash |-> "signal n" | "hang" | ...].  For every record TLC prints   *)
(* the set of violated clauses when it is not empty; at the end it prints     *)
(* the categories of the request space for which no successful fit was        *)
(* recorded (a contract only ever satisfied by failure would be vacuous).     *)
EXTENDS FitContract, Json, IOUtils

Log == ndJsonDeserialize(IOEnv.FITLOG)
NoVary == [A |-> 0]
NoPairs == {}
VARIABLE k

Crashed(r) == "crash" \in DOMAIN r
Succeeded(r) == ~Crashed(r) /\ r.out.status = 0 /\ ~r.out.exception

Fails(r) == IF Crashed(r) THEN {"crash"} ELSE Violations(r.req, r.out)

\* refusals that the library announces by design (message + error code): not counted as gaps
\*   multivariate fit without the Goulard algorithm, which is what a constraint on a sill implies
\*   ("In Multivariate case, Goulard option is mandatory"); constant sills without Goulard
DocumentedRefusal(q) ==
  \/ q.nvar > 1 /\ ~q.opt.goulard /\ q.entry \in {"fit", "fitcov", "vmap"}
  \/ q.nvar > 1 /\ (\E i \in 1..Len(q.cons) : q.cons[i].elem = "SILL") /\ q.entry \in {"fit", "fitcov", "vmap"}
  \/ q.csill > 0 /\ ~q.opt.goulard
  \/ \E i \in 1..Len(q.cons) : q.cons[i].elem = "SILL" /\ q.cons[i].val < 0
  \* keep_intstr without any structure of that kind in the list ("No such structure is provided")
  \/ q.opt.keepint /\ q.entry \in {"fit", "fitcov", "vmap"} /\ \A i \in 1..Len(q.types) : ~IntrinsicOnly(q.types[i])
  \* observed, not documented: Model::fitFromVMap refuses every multivariate map (it demands both nvar and
  \* nvar (nvar + 1) / 2 variables in the map)
  \/ q.entry = "vmap" /\ q.nvar > 1

Tags(q) ==
     { <<"entry", q.entry>>, <<"ndim", ToString(q.ndim)>>, <<"recipe", q.recipe>>, <<"empty", q.empty>>,
       <<"ndir", ToString(Len(q.dirs))>>, <<"nstruct", ToString(Len(q.types))>>, <<"wmode", ToString(q.wmode)>>,
       <<"maxiter", ToString(q.maxiter)>>, <<"csill", IF q.csill > 0 THEN "yes" ELSE "no">> }
  \cup { <<"flag", q.optrow[i]>> : i \in 1..Len(q.optrow) }
  \cup { <<"cons", q.cons[i].elem, q.cons[i].type>> : i \in 1..Len(q.cons) }
  \cup { <<"type", q.types[i]>> : i \in 1..Len(q.types) }

Recs == 1..Len(Log)
NTags(i) == { <<Log[i].req.nvar>> \o t : t \in Tags(Log[i].req) }
\* categories (number of variables, tag) carried by at least one request that is not refused by design and by
\* no successfully fitted request, each with the records that carry it (the driver excuses a category only
\* when every one of these records is a recorded known finding)
Gaps ==
  LET cand   == {j \in Recs : ~DocumentedRefusal(Log[j].req)}
      \* every kind of constraint item of the vocabulary must be exercised with success, whatever the request space
      \* happens to contain (sill items: one variable only, they are refused otherwise)
      vocab  == { <<n, "cons", e, t>> : n \in 1..3, e \in {"RANGE", "ANGLE", "PARAM"}, t \in {"LOWER", "UPPER", "EQUAL"} }
                \cup { <<1, "cons", "SILL", t>> : t \in {"LOWER", "UPPER", "EQUAL"} }
      wanted == UNION { NTags(i) : i \in cand } \cup vocab
      got    == UNION { NTags(i) : i \in {j \in Recs : Succeeded(Log[j])} }
  IN { [tag |-> t, idx |-> SetToSeq({i \in cand : t \in NTags(i)})] : t \in wanted \ got }

\* (the variable req of the request machine is not used here)
TInit == k = 0 /\ req = 0
TNext == /\ k < Len(Log)
         /\ k' = k + 1
         /\ UNCHANGED req
         /\ LET f == Fails(Log[k']) IN f = {} \/ PrintT(ToJson([idx |-> k', fails |-> SetToSeq(f)]))
TSpec == TInit /\ [][TNext]_<<k, req>>
AllExamined ==
  /\ (TLCGet("stats").diameter = Len(Log) + 1 \/ PrintT(<<"NOT-ALL-EXAMINED", TLCGet("stats").diameter>>))
  /\ PrintT(ToJson([gaps |-> SetToSeq(Gaps)]))
=============================================================================
