---------------------------- MODULE CovStructures ----------------------------
(***************************************************************************)
(* Property C03: every offered covariance structure is a valid model.       *)
(*                                                                         *)
(* TLC has no reals.  This module carries everything of C03 that is         *)
(* discrete or exact:                                                      *)
(*  1. the CATALOGUE: one record per ECov structure with what the           *)
(*     literature publishes (Chiles & Delfiner, Geostatistics, 2nd ed.,     *)
(*     section 2.5 and 4.5; Wendland 1995; Yaglom 1987 / Zastavnyi for the  *)
(*     damped cosine; Schoenberg's bound for J-Bessel): space, largest      *)
(*     dimension of validity (possibly a function of the shape parameter),  *)
(*     parameter domain, range convention (practical range / scale factor), *)
(*     compact support, order of intrinsicity, and the closed form when it   *)
(*     is a piecewise polynomial with rational coefficients;                *)
(*  2. exact EQUATIONS between evaluations of the structures: values that   *)
(*     are rational numbers (polynomial structures on a rational lattice,    *)
(*     Cauchy / Gamma with integer exponent, cosine at rational multiples   *)
(*     of its period ...), functional identities of the transcendental      *)
(*     structures (exp(a+b), Gaussian doubling, stable = exponential /      *)
(*     Gaussian, Matern half-integers and the K-Bessel recurrence,          *)
(*     J-Bessel(1/2) = cardinal sine, damped cosine = exponential x         *)
(*     cosine ...), difference stencils that annihilate the even            *)
(*     polynomials filtered by the authorised increments (generalised       *)
(*     covariances are published up to such polynomials);                   *)
(*  3. the exact GEOMETRY of anisotropy: lattice vectors, rational ranges,   *)
(*     rotations by right angles and by the 3-4-5 angle -> the squared       *)
(*     reduced distance as an exact rational;                               *)
(*  4. the point-set FAMILIES, range classes, shape-parameter grids and      *)
(*     sill matrices over which positive semi-definiteness is measured on   *)
(*     the real code, and the OBLIGATION attached to every combination      *)
(*     (positive semi-definite / conditionally so at order k / no           *)
(*     obligation because the catalogue says the structure is not valid     *)
(*     there).                                                             *)
(* A rational is a pair <<n, d>>, d > 0, always reduced.  TLC integers are  *)
(* 32-bit and multiplication overflows are errors: the lattices below are   *)
(* chosen so that every intermediate value fits.                            *)
(***************************************************************************)
EXTENDS Integers, Sequences, FiniteSets, TLC

-----------------------------------------------------------------------------
(* Rationals                                                                *)

Abs(x) == IF x < 0 THEN -x ELSE x
Max2(a, b) == IF a >= b THEN a ELSE b
Min2(a, b) == IF a <= b THEN a ELSE b
RECURSIVE Gcd(_, _)
Gcd(a, b) == IF b = 0 THEN a ELSE Gcd(b, a % b)
Q(n, d) == LET s == IF d < 0 THEN -1 ELSE 1
               g == Gcd(Abs(n), Abs(d)) IN
           <<(s * n) \div g, (s * d) \div g>>
QI(n)      == <<n, 1>>
QAdd(a, b) == Q(a[1] * b[2] + b[1] * a[2], a[2] * b[2])
QSub(a, b) == Q(a[1] * b[2] - b[1] * a[2], a[2] * b[2])
QMul(a, b) == LET g1 == Gcd(Abs(a[1]), b[2])  g2 == Gcd(Abs(b[1]), a[2]) IN     \* cross-reduced first
              Q((a[1] \div g1) * (b[1] \div g2), (a[2] \div g2) * (b[2] \div g1))
QNeg(a)    == <<-a[1], a[2]>>
QDiv(a, b) == QMul(a, IF b[1] < 0 THEN <<-b[2], -b[1]>> ELSE <<b[2], b[1]>>)
QLe(a, b)  == LET g == Gcd(a[2], b[2]) IN a[1] * (b[2] \div g) <= b[1] * (a[2] \div g)
QLt(a, b)  == LET g == Gcd(a[2], b[2]) IN a[1] * (b[2] \div g) < b[1] * (a[2] \div g)
QAbs(a)    == <<Abs(a[1]), a[2]>>
RECURSIVE QPow(_, _)
QPow(a, k) == IF k = 0 THEN QI(1) ELSE QMul(a, QPow(a, k - 1))
IsQ(a)     == a[2] > 0 /\ Gcd(Abs(a[1]), a[2]) = 1

\* polynomials: sequences of rationals, ascending powers
RECURSIVE Horner(_, _, _)
Horner(c, x, k) == IF k > Len(c) THEN QI(0) ELSE QAdd(c[k], QMul(x, Horner(c, x, k + 1)))
PolyEval(c, x) == Horner(c, x, 1)
PolyMul(a, b) == [k \in 1..(Len(a) + Len(b) - 1) |->
                    LET lo == Max2(1, k + 1 - Len(b))  hi == Min2(k, Len(a))
                        RECURSIVE S(_)
                        S(i) == IF i > hi THEN QI(0) ELSE QAdd(QMul(a[i], b[k + 1 - i]), S(i + 1)) IN
                    S(lo)]
RECURSIVE PolyPow(_, _)
PolyPow(a, k) == IF k = 0 THEN <<QI(1)>> ELSE PolyMul(a, PolyPow(a, k - 1))
PZ(seq) == [k \in 1..Len(seq) |-> Q(seq[k][1], seq[k][2])]      \* from <<num, den>> pairs
RECURSIVE SumAbs(_, _)
SumAbs(c, k) == IF k > Len(c) THEN QI(0) ELSE QAdd(QAbs(c[k]), SumAbs(c, k + 1))

Range(f) == { f[i] : i \in DOMAIN f }

-----------------------------------------------------------------------------
(* 1. The catalogue                                                          *)
(*                                                                         *)
(* name    ECov key                                                         *)
(* cname   name under which CovFactory::getCovList offers the structure      *)
(* space   "rn" Euclidean; "sphere" defined on the sphere only; "spectral"   *)
(*         defined by its spectrum only (SPDE) - the last two have no        *)
(*         covariance in R^d and must not be offered for R^d                 *)
(* dim     rule giving the dimensions of validity: "any", "max" (d <= mx),   *)
(*         "besselj" (nu >= d/2 - 1), "cosexp" (2.pi/p <= tan(pi/2d))       *)
(* par     shape parameter: 0 none, 1 yes; plo (lower end, admitted value),  *)
(*         phi upper end (<<0,1>> = unbounded)                               *)
(* rng     1: sill + range; -1: slope, the range is a scale; 0: no range     *)
(* ord     -1 stationary covariance; k >= 0 generalised covariance of order  *)
(*         k: positive semi-definite on the increments that filter the       *)
(*         monomials of degree <= k                                          *)
(* cmp     TRUE: vanishes at and beyond the range                            *)
(* sca     convention "practical range = sca x theoretical scale":           *)
(*         "one"; "ln20" (C(range) = C(0)/20 for exp(-h)); "sqrtln20";       *)
(*         "gamma" 20^(1/p) - 1; "cauchy" sqrt(20^(1/p) - 1);                *)
(*         "stable" 3^(1/p); "matern" sqrt(12 p); "sinc" 20.371; "two"       *)
(* atr     published C(range) / C(0) when it is a rational (<<-1,1>> none)   *)
(* mono    TRUE: non-increasing in h                                         *)
(* pcs     closed form as polynomial pieces in r = h / range:                *)
(*         << [lo, hi, c] >> (value 0 outside the pieces); src says where    *)
(*         the pieces come from ("lit": literature; "code": no published     *)
(*         form known to us, transcribed from gstlearn and only used as a    *)
(*         regression value)                                                 *)
(***************************************************************************)

Piece(lo, hi, c) == [lo |-> lo, hi |-> hi, c |-> PZ(c)]
None == <<-1, 1>>
Unb  == <<0, 1>>

E(name, cname, space, dim, mx, par, plo, phi, rng, ord, cmp, sca, atr, mono, pcs, src) ==
  [name |-> name, cname |-> cname, space |-> space, dim |-> dim, mx |-> mx, par |-> par, plo |-> plo, phi |-> phi,
   rng |-> rng, ord |-> ord, cmp |-> cmp, sca |-> sca, atr |-> atr, mono |-> mono, pcs |-> pcs, src |-> src]

Catalogue == <<
  E("NUGGET",      "Nugget Effect",   "rn", "any", 0, 0, None, None, 0, -1, FALSE, "one", None, TRUE, <<>>, "lit"),
  E("EXPONENTIAL", "Exponential",     "rn", "any", 0, 0, None, None, 1, -1, FALSE, "ln20", <<1, 20>>, TRUE, <<>>, "lit"),
  E("SPHERICAL",   "Spherical",       "rn", "max", 3, 0, None, None, 1, -1, TRUE, "one", QI(0), TRUE,
      <<Piece(QI(0), QI(1), << <<1,1>>, <<-3,2>>, <<0,1>>, <<1,2>> >>)>>, "lit"),
  E("GAUSSIAN",    "Gaussian",        "rn", "any", 0, 0, None, None, 1, -1, FALSE, "sqrtln20", <<1, 20>>, TRUE, <<>>, "lit"),
  E("CUBIC",       "Cubic",           "rn", "max", 3, 0, None, None, 1, -1, TRUE, "one", QI(0), TRUE,
      <<Piece(QI(0), QI(1), << <<1,1>>, <<0,1>>, <<-7,1>>, <<35,4>>, <<0,1>>, <<-7,2>>, <<0,1>>, <<3,4>> >>)>>, "lit"),
  E("SINCARD",     "Cardinal Sine",   "rn", "max", 3, 0, None, None, 1, -1, FALSE, "sinc", None, FALSE, <<>>, "lit"),
  E("BESSELJ",     "J-Bessel",        "rn", "besselj", 0, 1, QI(0), QI(2), 1, -1, FALSE, "one", None, FALSE, <<>>, "lit"),
  E("MATERN",      "Matern",          "rn", "any", 0, 1, QI(0), QI(1000), 1, -1, FALSE, "matern", None, TRUE, <<>>, "lit"),
  E("GAMMA",       "Gamma",           "rn", "any", 0, 1, QI(0), QI(1000), 1, -1, FALSE, "gamma", <<1, 20>>, TRUE, <<>>, "lit"),
  E("CAUCHY",      "Cauchy",          "rn", "any", 0, 1, QI(0), QI(1000), 1, -1, FALSE, "cauchy", <<1, 20>>, TRUE, <<>>, "lit"),
  E("STABLE",      "Stable",          "rn", "any", 0, 1, QI(0), QI(2), 1, -1, FALSE, "stable", None, TRUE, <<>>, "lit"),
  E("LINEAR",      "Linear",          "rn", "any", 0, 0, None, None, -1, 0, FALSE, "one", None, TRUE, <<>>, "lit"),
  E("POWER",       "Power",           "rn", "any", 0, 1, QI(0), <<199, 100>>, -1, 0, FALSE, "one", None, TRUE, <<>>, "lit"),
  E("ORDER1_GC",   "Order-1 G.C.",    "rn", "any", 0, 0, None, None, -1, 0, FALSE, "one", None, TRUE, <<>>, "lit"),
  E("SPLINE_GC",   "Spline G.C.",     "rn", "any", 0, 0, None, None, -1, 1, FALSE, "one", None, FALSE, <<>>, "lit"),
  E("ORDER3_GC",   "Order-3 G.C.",    "rn", "any", 0, 0, None, None, -1, 1, FALSE, "one", None, FALSE, <<>>, "lit"),
  E("ORDER5_GC",   "Order-5 G.C.",    "rn", "any", 0, 0, None, None, -1, 2, FALSE, "one", None, FALSE, <<>>, "lit"),
  E("COSINUS",     "Cosinus",         "rn", "max", 1, 0, None, None, 1, -1, FALSE, "one", QI(1), FALSE, <<>>, "lit"),
  E("TRIANGLE",    "Triangle",        "rn", "max", 1, 0, None, None, 1, -1, TRUE, "one", QI(0), TRUE,
      <<Piece(QI(0), QI(1), << <<1,1>>, <<-1,1>> >>)>>, "lit"),
  E("COSEXP",      "Cosexp",          "rn", "cosexp", 0, 1, QI(0), Unb, 1, -1, FALSE, "ln20", None, FALSE, <<>>, "lit"),
  \* 1-D regularised model of gstlearn: 1 - 6r + 6r^2 + 2r^3 on [0,1/2[, 2(r-1)^3 on [1/2,1[ (r = h/range)
  E("REG1D",       "1-D Regularized", "rn", "max", 1, 0, None, None, 1, -1, TRUE, "two", QI(0), FALSE,
      <<Piece(QI(0), <<1,2>>, << <<1,1>>, <<-6,1>>, <<6,1>>, <<2,1>> >>),
        Piece(<<1,2>>, QI(1), << <<-2,1>>, <<6,1>>, <<-6,1>>, <<2,1>> >>)>>, "code"),
  \* pentaspherical model (self-convolution of the ball of R^5): valid up to R^5
  E("PENTA",       "Penta",           "rn", "max", 5, 0, None, None, 1, -1, TRUE, "one", QI(0), TRUE,
      <<Piece(QI(0), QI(1), << <<1,1>>, <<-15,8>>, <<0,1>>, <<5,4>>, <<0,1>>, <<-3,8>> >>)>>, "lit"),
  \* order-2 spline (-1)^(k+1) h^(2k) log h, k = 2
  E("SPLINE2_GC",  "Spline-2 G.C.",   "rn", "any", 0, 0, None, None, 1, 2, FALSE, "one", None, FALSE, <<>>, "lit"),
  E("STORKEY",     "Storkey",         "rn", "max", 1, 0, None, None, 1, -1, TRUE, "one", QI(0), FALSE, <<>>, "lit"),
  \* Wendland functions phi_{3,k}: (1-r)^2, (1-r)^4 (4r+1), (1-r)^6 (35r^2+18r+3)/3
  E("WENDLAND0",   "Wendland-2,0",    "rn", "max", 3, 0, None, None, 1, -1, TRUE, "one", QI(0), TRUE,
      <<Piece(QI(0), QI(1), << <<1,1>>, <<-2,1>>, <<1,1>> >>)>>, "lit"),
  E("WENDLAND1",   "Wendland-3,1",    "rn", "max", 3, 0, None, None, 1, -1, TRUE, "one", QI(0), TRUE,
      <<Piece(QI(0), QI(1), << <<1,1>>, <<0,1>>, <<-10,1>>, <<20,1>>, <<-15,1>>, <<4,1>> >>)>>, "lit"),
  E("WENDLAND2",   "Wendland-4,2",    "rn", "max", 3, 0, None, None, 1, -1, TRUE, "one", QI(0), TRUE,
      <<Piece(QI(0), QI(1), << <<1,1>>, <<0,1>>, <<-28,3>>, <<0,1>>, <<70,1>>, <<-448,3>>, <<140,1>>, <<-64,1>>, <<35,3>> >>)>>, "lit"),
  E("MARKOV",      "Markov",          "spectral", "any", 0, 1, QI(0), QI(1000), 1, -1, FALSE, "one", None, FALSE, <<>>, "lit"),
  E("GEOMETRIC",   "Geometric",       "sphere", "any", 0, 0, None, None, 1, -1, FALSE, "one", None, FALSE, <<>>, "lit"),
  E("POISSON",     "Poisson",         "sphere", "any", 0, 1, QI(0), QI(1000), 1, -1, FALSE, "one", None, FALSE, <<>>, "lit"),
  E("LINEARSPH",   "LinearSph",       "sphere", "any", 0, 0, None, None, 1, -1, FALSE, "one", None, FALSE, <<>>, "lit")
>>

Names    == { Catalogue[i].name : i \in DOMAIN Catalogue }
Entry(s) == CHOOSE e \in Range(Catalogue) : e.name = s
RnNames  == { e.name : e \in { x \in Range(Catalogue) : x.space = "rn" } }
Dims     == 1..3

\* Shape parameters of the grids of this module are small rationals.
\* Largest dimension in which the structure is SURELY valid / smallest in which it is SURELY not
\* (99 / 100 = no such dimension).  Between the two nothing is claimed (damped cosine: the thresholds
\* 2.pi and 2.pi.sqrt(3) are bracketed by the integers 6 < 2.pi < 7 and 10 < 2.pi.sqrt(3) < 11; in R^3
\* only p <= 6 is claimed invalid).
ValidUpTo(e, p) ==
  CASE e.dim = "any"     -> 99
    [] e.dim = "max"     -> e.mx
    [] e.dim = "besselj" -> (2 * p[1] + 2 * p[2]) \div p[2]                   \* floor(2 nu + 2)
    [] e.dim = "cosexp"  -> IF QLe(QI(11), p) THEN 3 ELSE IF QLe(QI(7), p) THEN 2 ELSE 1
InvalidFrom(e, p) ==
  CASE e.dim = "any"     -> 100
    [] e.dim = "max"     -> e.mx + 1
    [] e.dim = "besselj" -> (2 * p[1] + 2 * p[2]) \div p[2] + 1
    [] e.dim = "cosexp"  -> IF QLe(p, QI(6)) THEN 2 ELSE 100
ParamAdmitted(e, p) == e.par = 1 /\ QLe(e.plo, p) /\ (e.phi = Unb \/ QLe(p, e.phi))

\* shape parameters examined (inside the admitted domain, its ends included where the published
\* function is defined there)
ParamGrid(s, thorough) ==
  CASE s = "BESSELJ" -> {<<1,4>>, <<1,2>>, QI(1), QI(2)} \cup (IF thorough THEN {<<1,10>>, <<3,2>>, <<2,5>>} ELSE {})
    [] s = "MATERN"  -> {<<1,2>>, QI(1), <<3,2>>, <<5,2>>} \cup (IF thorough THEN {<<1,4>>, QI(2), <<7,2>>, QI(5)} ELSE {})
    [] s = "GAMMA"   -> {<<1,2>>, QI(1), QI(2)} \cup (IF thorough THEN {<<1,4>>, QI(5)} ELSE {})
    [] s = "CAUCHY"  -> {<<1,2>>, QI(1), QI(2)} \cup (IF thorough THEN {<<1,4>>, QI(5)} ELSE {})
    [] s = "STABLE"  -> {<<1,2>>, QI(1), <<3,2>>, QI(2)} \cup (IF thorough THEN {<<1,4>>, <<7,4>>} ELSE {})
    [] s = "POWER"   -> {<<1,2>>, QI(1), <<3,2>>, <<199,100>>} \cup (IF thorough THEN {<<1,4>>, <<7,4>>} ELSE {})
    [] s = "COSEXP"  -> {QI(1), QI(4), QI(8), QI(12)} \cup (IF thorough THEN {QI(2), QI(20)} ELSE {})
    [] OTHER         -> {QI(1)}

-----------------------------------------------------------------------------
(* Checks of the catalogue itself (exact)                                    *)

Degree(e)   == IF e.pcs = <<>> THEN 0 ELSE Len(e.pcs[1].c) - 1
\* rational lattice of r = h/range on which a polynomial structure is examined: denominators chosen
\* with the degree so that q^degree times the coefficients stays below 2^31
Dens(e)     == IF Degree(e) >= 8 THEN {1, 2, 3, 4, 5} ELSE IF Degree(e) >= 6 THEN {1, 2, 3, 4, 5, 6} ELSE {1, 2, 3, 4, 5, 6, 8}
Lattice(e)  == { x \in { Q(p, q) : p \in 0..16, q \in Dens(e) } : QLe(x, QI(2)) }
PolyAt(e, r) ==                      \* value of the published closed form at r >= 0
  LET inside == { i \in DOMAIN e.pcs : QLe(e.pcs[i].lo, r) /\ QLt(r, e.pcs[i].hi) } IN
  IF inside = {} THEN QI(0) ELSE PolyEval(e.pcs[CHOOSE i \in inside : TRUE].c, r)

LowerBound(d) == IF d <= 1 THEN QI(-1) ELSE IF d = 2 THEN <<-403, 1000>> ELSE <<-218, 1000>>   \* inf of J0, of sin(x)/x
FirstSlopeNegative(c) ==             \* the lowest-degree non-constant term decreases from C(0)
  LET nz == { k \in 2..Len(c) : c[k][1] # 0 } IN
  nz # {} /\ c[CHOOSE k \in nz : \A j \in nz : k <= j][1] < 0

PolyEntryOk(e) ==
  /\ PolyAt(e, QI(0)) = QI(1)                                                   \* C(0) = 1
  /\ \A i \in DOMAIN e.pcs : i < Len(e.pcs) =>                                   \* continuous at the joints
        e.pcs[i].hi = e.pcs[i + 1].lo /\ PolyEval(e.pcs[i].c, e.pcs[i].hi) = PolyEval(e.pcs[i + 1].c, e.pcs[i].hi)
  /\ e.cmp => /\ e.pcs[Len(e.pcs)].hi = QI(1)                                    \* support = [0, range]
              /\ PolyEval(e.pcs[Len(e.pcs)].c, QI(1)) = QI(0)                    \* continuous at the range
              /\ e.atr = QI(0)
  /\ FirstSlopeNegative(e.pcs[1].c)
  /\ \A r \in Lattice(e) :
        LET v == PolyAt(e, r) IN
        /\ QLe(QAbs(v), QI(1))                                                   \* |C| <= C(0)
        /\ v[1] < 0 => QLe(LowerBound(IF e.dim = "max" THEN Min2(e.mx, 3) ELSE 3), v)   \* Schoenberg bound in the declared dimension
        /\ QLe(QI(1), r) => v = QI(0)
  /\ e.mono => \A q \in Dens(e) : \A p \in 0..(2 * q - 1) : QLe(PolyAt(e, Q(p + 1, q)), PolyAt(e, Q(p, q)))   \* along each sub-lattice

\* published factorised forms equal the expanded coefficients
OneMinusR == <<QI(1), QI(-1)>>
FactorisedOk ==
  /\ Entry("WENDLAND0").pcs[1].c = PolyPow(OneMinusR, 2)
  /\ Entry("WENDLAND1").pcs[1].c = PolyMul(PolyPow(OneMinusR, 4), <<QI(1), QI(4)>>)
  /\ Entry("WENDLAND2").pcs[1].c = PolyMul(PolyPow(OneMinusR, 6), <<QI(1), QI(6), <<35, 3>>>>)
  /\ Entry("SPHERICAL").pcs[1].c = PolyMul(PolyPow(OneMinusR, 2), <<QI(1), <<1, 2>>>>)              \* (1-r)^2 (1 + r/2)
  /\ Entry("PENTA").pcs[1].c = PolyMul(PolyPow(OneMinusR, 3), <<QI(1), <<9, 8>>, <<3, 8>>>>)          \* (1-r)^3 (1 + 9r/8 + 3r^2/8)
  /\ Entry("CUBIC").pcs[1].c = PolyMul(PolyPow(OneMinusR, 4), <<QI(1), QI(4), QI(3), <<3, 4>>>>)      \* (1-r)^4 (1 + 4r + 3r^2 + 3r^3/4)
  /\ Entry("REG1D").pcs[2].c = PolyMul(<<QI(2)>>, PolyPow(<<QI(-1), QI(1)>>, 3))                     \* 2 (r-1)^3

EntryOk(e) ==
  /\ IsQ(e.atr) /\ (e.par = 1 => IsQ(e.plo) /\ IsQ(e.phi))
  /\ e.pcs # <<>> => PolyEntryOk(e)
  /\ e.cmp => e.atr = QI(0) /\ e.sca \in {"one", "two"}
  /\ e.ord >= 0 => e.dim = "any"                   \* the generalised covariances are valid in every dimension
  /\ e.space # "rn" => e.pcs = <<>>
  /\ \A p \in ParamGrid(e.name, TRUE) :
        /\ IsQ(p) /\ (e.par = 1 => ParamAdmitted(e, p))
        /\ ValidUpTo(e, p) < InvalidFrom(e, p)
CatalogueOk ==
  /\ Cardinality(Names) = Len(Catalogue)
  /\ Cardinality({ Catalogue[i].cname : i \in DOMAIN Catalogue }) = Len(Catalogue)
  /\ FactorisedOk

-----------------------------------------------------------------------------
(* 2. Equations between evaluations                                          *)
(*                                                                         *)
(* K[s, p](x) is the value of structure s with shape parameter p, unit sill, *)
(* at the distance x.a where a is the range (unit "range") or the            *)
(* theoretical scale (unit "scale") given to the library; mode "c" is the    *)
(* covariance, "g" the variogram form.  An equation is                       *)
(*    sum_t  c_t . prod_f K_f(x_f)^e_f  =  q + sum_l c_l ln(n_l) + sum_x c_x exp(a_x) + ip / pi   *)
(* and must hold in every space dimension listed (the constants of the       *)
(* generalised covariances depend on the dimension; the equations do not).   *)

F(s, p, x, e, m) == [s |-> s, p |-> p, x |-> x, e |-> e, m |-> m]
T(c, f) == [c |-> c, f |-> f]
\* largest dimension (<= 3) in which every structure of the equation is a valid model with its shape parameter:
\* the equation is executed in the dimensions 1..mxd in which gstlearn offers all its structures
EqMaxDim(t) == LET fs == UNION { Range(t[i].f) : i \in DOMAIN t }
                   ds == { Min2(3, ValidUpTo(Entry(f.s), f.p)) : f \in fs } IN
               CHOOSE x \in ds : \A y \in ds : x <= y
Eq(cls, s, unit, a, t, q, lg, ex, dg) ==
  [k |-> "eq", cls |-> cls, s |-> s, unit |-> unit, a |-> a, t |-> t, q |-> q, lg |-> lg, ex |-> ex, ip |-> <<0, 1>>, dg |-> dg,
   mxd |-> EqMaxDim(t)]
P1 == QI(1)
Val(cls, s, p, unit, a, x, q, dg) == Eq(cls, s, unit, a, <<T(QI(1), <<F(s, p, x, 1, "c")>>)>>, q, <<>>, <<>>, dg)

\* required agreement in decimal digits, relative to the magnitude of the terms
DgExact  == 12      \* polynomials, elementary functions
DgBessel == 10      \* Bessel functions of the library / of libstdc++
DgRange  == 5       \* published practical-range constants are rounded to 7 digits

Scales(thorough) == IF thorough THEN {QI(1), <<3, 2>>, QI(10), <<1, 8>>} ELSE {QI(1), <<3, 2>>}

\* (a) closed forms of the polynomial structures at r = h/range on the lattice, beyond the range too
PolyEqs(thorough) ==
  UNION { { Val(IF e.src = "lit" THEN "poly" ELSE "poly-regression", e.name, P1, "range", a, r, PolyAt(e, r), DgExact)
            : r \in Lattice(e), a \in Scales(thorough) }
          : e \in { x \in Range(Catalogue) : x.pcs # <<>> } }

\* (b) the variogram form is C(0) - C(h); C(0) = 1 for the stationary structures
XGrid(thorough) == { Q(p, q) : p \in 0..(IF thorough THEN 12 ELSE 8), q \in (IF thorough THEN {1, 2, 3, 4} ELSE {1, 2, 4}) }
VarioEqs(thorough) ==
  UNION { UNION { { Eq("vario", s, "range", a,
                       <<T(QI(1), <<F(s, p, x, 1, "g")>>), T(QI(1), <<F(s, p, x, 1, "c")>>), T(QI(-1), <<F(s, p, QI(0), 1, "c")>>)>>,
                       QI(0), <<>>, <<>>, DgExact) : x \in XGrid(thorough), a \in {QI(1), <<3, 2>>} }
                  \cup (IF Entry(s).ord = -1 THEN { Val("c0", s, p, "range", <<3, 2>>, QI(0), QI(1), DgExact) } ELSE {})
                  : p \in ParamGrid(s, thorough) }
          : s \in RnNames }

\* (c) practical range: published value of C(range)/C(0)
RangeEqs ==
  UNION { { Val("atrange", e.name, p, "range", a, QI(1), e.atr, IF e.cmp \/ e.name = "COSINUS" THEN DgExact ELSE DgRange)
            : p \in ParamGrid(e.name, FALSE), a \in {QI(1), QI(7)} }
          : e \in { x \in Range(Catalogue) : x.space = "rn" /\ x.atr # None } }

\* (d) rational values of transcendental structures, in units of the theoretical scale
RatEqs(thorough) ==
  LET xs == { Q(p, q) : p \in 0..(IF thorough THEN 9 ELSE 6), q \in {1, 2, 3} } IN
  UNION { { Val("rational", "CAUCHY", QI(n), "scale", a, x, QPow(QDiv(QI(1), QAdd(QI(1), QMul(x, x))), n), DgExact)
            : x \in xs, a \in {QI(1), <<3, 2>>} } : n \in 1..3 }
  \cup UNION { { Val("rational", "GAMMA", QI(n), "scale", a, x, QPow(QDiv(QI(1), QAdd(QI(1), x)), n), DgExact)
            : x \in xs, a \in {QI(1), <<3, 2>>} } : n \in 1..3 }
  \* cos(2.pi.k/12) is rational for k not congruent to 1, 5, 7, 11
  \cup { Val("rational", "COSINUS", P1, "range", a, Q(k, 12),
             (CASE k % 12 = 0 -> QI(1) [] k % 12 \in {2, 10} -> <<1, 2>> [] k % 12 \in {3, 9} -> QI(0)
                [] k % 12 \in {4, 8} -> <<-1, 2>> [] k % 12 = 6 -> QI(-1)), DgExact)
         : k \in { j \in 0..30 : j % 12 \notin {1, 5, 7, 11} }, a \in {QI(1), <<3, 2>>} }
  \cup { Val("rational", "STORKEY", P1, "range", QI(1), x[1], x[2], DgExact)
         : x \in { <<QI(0), QI(1)>>, <<<<1, 2>>, <<1, 6>>>>, <<QI(1), QI(0)>>, <<<<3, 2>>, QI(0)>>, <<QI(2), QI(0)>> } }
  \* Storkey at the quarters of its range: 1/2 + 1/(2 pi), 1/6 - 1/(2 pi)
  \cup { [Val("rational", "STORKEY", P1, "range", a, <<1, 4>>, <<1, 2>>, DgExact) EXCEPT !.ip = <<1, 2>>] : a \in {QI(1), <<3, 2>>} }
  \cup { [Val("rational", "STORKEY", P1, "range", a, <<3, 4>>, <<1, 6>>, DgExact) EXCEPT !.ip = <<-1, 2>>] : a \in {QI(1), <<3, 2>>} }
  \cup { Val("rational", "NUGGET", P1, "range", QI(1), x, IF x = QI(0) THEN QI(1) ELSE QI(0), DgExact) : x \in xs }
  \cup { Val("rational", "COSEXP", p, "scale", QI(1), QMul(p, Q(2 * k + 1, 4)), QI(0), DgExact) : k \in 0..3, p \in {QI(1), QI(4), QI(12)} }
  \* ends of the admitted parameter domains where the published function is defined: J-Bessel with nu = 0 is J0
  \* (C(0) = 1), the K-Bessel model with nu = 1000 is a finite number (0 . K = 0 fails for NaN)
  \cup { Val("ends", "BESSELJ", QI(0), "range", QI(1), QI(0), QI(1), DgExact) }
  \cup { Eq("ends", "MATERN", "range", QI(1), <<T(QI(0), <<F("MATERN", QI(1000), x, 1, "c")>>)>>, QI(0), <<>>, <<>>, DgExact) : x \in {<<1, 4>>, QI(1)} }
  \* variogram forms of the intrinsic structures in units of the scale: gamma(x) = x ; x^p at perfect powers
  \cup { Eq("rational", s, "scale", a, <<T(QI(1), <<F(s, P1, x, 1, "g")>>)>>, x, <<>>, <<>>, DgExact)
         : s \in {"LINEAR", "ORDER1_GC", "POWER"}, x \in xs, a \in {QI(1), <<3, 2>>} }
  \cup { Eq("rational", "POWER", "scale", QI(1), <<T(QI(1), <<F("POWER", w[1], QI(w[2]), 1, "g")>>)>>, QI(w[3]), <<>>, <<>>, DgExact)
         : w \in { <<<<1, 2>>, 4, 2>>, <<<<1, 2>>, 9, 3>>, <<<<3, 2>>, 4, 8>>, <<<<3, 2>>, 9, 27>>, <<<<1, 2>>, 1, 1>>, <<<<199, 100>>, 1, 1>> } }

\* (e) functional identities of the transcendental structures (theoretical scale 1 or 3/2)
C1(s, p, x) == <<F(s, p, x, 1, "c")>>
IdentEqs(thorough) ==
  LET xs == { Q(p, q) : p \in 1..(IF thorough THEN 10 ELSE 6), q \in {1, 2, 3} }
      sc == {QI(1), <<3, 2>>}
      Id(s, a, t, dg) == Eq("ident", s, "scale", a, t, QI(0), <<>>, <<>>, dg) IN
  \* exp(-(a+b)) = exp(-a) exp(-b)
  { Id("EXPONENTIAL", a, <<T(QI(1), C1("EXPONENTIAL", P1, QAdd(x, y))),
                         T(QI(-1), <<F("EXPONENTIAL", P1, x, 1, "c"), F("EXPONENTIAL", P1, y, 1, "c")>>)>>, DgExact)
    : x \in xs, y \in {<<1, 2>>, QI(1), <<5, 3>>}, a \in sc }
  \* Gaussian: C(2x) = C(x)^4 ; C(x) = exp(-x^2)
  \cup { Id("GAUSSIAN", a, <<T(QI(1), C1("GAUSSIAN", P1, QMul(QI(2), x))), T(QI(-1), <<F("GAUSSIAN", P1, x, 4, "c")>>)>>, DgExact)
         : x \in { y \in xs : QLe(y, QI(3)) }, a \in sc }
  \cup { Id("GAUSSIAN", a, <<T(QI(1), C1("GAUSSIAN", P1, x)), T(QI(-1), C1("EXPONENTIAL", P1, QMul(x, x)))>>, DgExact)
         : x \in { y \in xs : QLe(y, QI(5)) }, a \in {QI(1)} }
  \* stable: exponent 1 = exponential, exponent 2 = Gaussian, exp(-x^p) at perfect powers
  \cup { Id("STABLE", a, <<T(QI(1), C1("STABLE", QI(1), x)), T(QI(-1), C1("EXPONENTIAL", P1, x))>>, DgExact) : x \in xs, a \in sc }
  \cup { Id("STABLE", a, <<T(QI(1), C1("STABLE", QI(2), x)), T(QI(-1), C1("GAUSSIAN", P1, x))>>, DgExact)
         : x \in { y \in xs : QLe(y, QI(5)) }, a \in sc }
  \cup { Id("STABLE", QI(1), <<T(QI(1), C1("STABLE", w[1], QI(w[2]))), T(QI(-1), C1("EXPONENTIAL", P1, QI(w[3])))>>, DgExact)
         : w \in { <<<<1, 2>>, 4, 2>>, <<<<1, 2>>, 9, 3>>, <<<<3, 2>>, 4, 8>>, <<<<1, 2>>, 1, 1>>, <<<<3, 2>>, 1, 1>> } }
  \* Matern (K-Bessel): nu = 1/2, 3/2, 5/2 and the recurrence  M[nu+1] = M[nu] + x^2 / (4 nu (nu-1)) M[nu-1]
  \cup { Id("MATERN", a, <<T(QI(1), C1("MATERN", <<1, 2>>, x)), T(QI(-1), C1("EXPONENTIAL", P1, x))>>, DgBessel) : x \in xs, a \in sc }
  \cup { Id("MATERN", a, <<T(QI(1), C1("MATERN", <<3, 2>>, x)), T(QNeg(QAdd(QI(1), x)), C1("EXPONENTIAL", P1, x))>>, DgBessel)
         : x \in xs, a \in sc }
  \cup { Id("MATERN", a, <<T(QI(1), C1("MATERN", <<5, 2>>, x)),
                          T(QNeg(QAdd(QAdd(QI(1), x), QDiv(QMul(x, x), QI(3)))), C1("EXPONENTIAL", P1, x))>>, DgBessel)
         : x \in xs, a \in sc }
  \cup { Id("MATERN", QI(1), <<T(QI(1), C1("MATERN", QAdd(nu, QI(1)), x)), T(QI(-1), C1("MATERN", nu, x)),
                               T(QNeg(QDiv(QMul(x, x), QMul(QI(4), QMul(nu, QSub(nu, QI(1)))))), C1("MATERN", QSub(nu, QI(1)), x))>>, DgBessel)
         : x \in xs, nu \in {<<3, 2>>, QI(2), <<5, 2>>, <<7, 4>>} }
  \* Cauchy / Gamma: power laws in the exponent, Cauchy(x) = Gamma(x^2)
  \cup { Id("CAUCHY", a, <<T(QI(1), <<F("CAUCHY", <<1, 2>>, x, 2, "c")>>), T(QI(-1), C1("CAUCHY", QI(1), x))>>, DgExact) : x \in xs, a \in sc }
  \cup { Id("GAMMA", a, <<T(QI(1), <<F("GAMMA", <<1, 2>>, x, 2, "c")>>), T(QI(-1), C1("GAMMA", QI(1), x))>>, DgExact) : x \in xs, a \in sc }
  \cup { Id("CAUCHY", QI(1), <<T(QI(1), C1("CAUCHY", p, x)), T(QI(-1), C1("GAMMA", p, QMul(x, x)))>>, DgExact)
         : x \in { y \in xs : QLe(y, QI(4)) }, p \in {<<1, 2>>, QI(2)} }
  \* J-Bessel with nu = 1/2 is the cardinal sine
  \cup { Id("BESSELJ", a, <<T(QI(1), C1("BESSELJ", <<1, 2>>, x)), T(QI(-1), C1("SINCARD", P1, x))>>, DgBessel) : x \in xs, a \in sc }
  \* damped cosine = exponential x cosine of period p ; cosine: double angle
  \cup { Id("COSEXP", QI(1), <<T(QI(1), C1("COSEXP", p, x)),
                               T(QI(-1), <<F("EXPONENTIAL", P1, x, 1, "c"), F("COSINUS", P1, QDiv(x, p), 1, "c")>>)>>, DgExact)
         : x \in xs, p \in {QI(1), QI(4), QI(12)} }
  \cup { [Id("COSINUS", a, <<T(QI(1), C1("COSINUS", P1, QMul(QI(2), x))), T(QI(-2), <<F("COSINUS", P1, x, 2, "c")>>)>>, DgExact)
              EXCEPT !.q = QI(-1)] : x \in xs, a \in sc }

\* (f) generalised covariances are published up to an even polynomial of degree <= 2k: the stencil w on
\* the distances 0, 1, 2 (, 3) annihilates 1, x^2 (, x^4); what remains is the published essential term
StencilOk(w, k) == LET RECURSIVE S(_, _)
                       S(i, j) == IF i > Len(w) THEN 0 ELSE w[i] * (IF j = 0 THEN 1 ELSE (i - 1) ^ (2 * j)) + S(i + 1, j) IN
                   Len(w) = k + 2 /\ \A j \in 0..k : S(1, j) = 0
W0 == <<-1, 1>>
W1 == <<3, -4, 1>>
W2 == <<-10, 15, -6, 1>>
Sten(w, s, p) == [i \in 1..Len(w) |-> T(QI(w[i]), C1(s, p, QI(i - 1)))]
StencilEqs ==
  LET St(s, p, w, q, lg) == { Eq("stencil", s, "scale", a, Sten(w, s, p), q, lg, <<>>, DgExact - 1) : a \in {QI(1), <<3, 2>>} } IN
       St("LINEAR", P1, W0, QI(-1), <<>>)                                     \* K = -x
  \cup St("ORDER1_GC", P1, W0, QI(-1), <<>>)
  \cup St("POWER", QI(1), W0, QI(-1), <<>>)
  \cup St("ORDER3_GC", P1, W1, QI(4), <<>>)                                   \* K = +x^3 : -4 + 8
  \cup St("ORDER5_GC", P1, W2, QI(-66), <<>>)                                 \* K = -x^5 : -(15 - 192 + 243)
  \cup St("SPLINE_GC", P1, W1, QI(0), << <<4, 1, 2>> >>)                      \* K = x^2 ln x : 4 ln 2
  \cup St("SPLINE2_GC", P1, W2, QI(0), << <<96, 1, 2>>, <<-81, 1, 3>> >>)     \* K = -x^4 ln x : 96 ln 2 - 81 ln 3
StencilsOk == StencilOk(W0, 0) /\ StencilOk(W1, 1) /\ StencilOk(W2, 2)

Equations(thorough) == PolyEqs(thorough) \cup VarioEqs(thorough) \cup RangeEqs \cup RatEqs(thorough)
                       \cup IdentEqs(thorough) \cup StencilEqs

\* sanity of an equation; for equations whose factors are all published polynomials the equation
\* itself is checked exactly on the catalogue
FactorsOf(eq) == UNION { Range(eq.t[i].f) : i \in DOMAIN eq.t }
EqOk(eq) ==
  /\ IsQ(eq.q) /\ IsQ(eq.a) /\ eq.a[1] > 0
  /\ \A f \in FactorsOf(eq) : /\ f.s \in RnNames /\ IsQ(f.x) /\ f.x[1] >= 0 /\ IsQ(f.p) /\ f.e >= 1
                              /\ Entry(f.s).par = 1 => ParamAdmitted(Entry(f.s), f.p)
  /\ (eq.unit = "range" /\ eq.lg = <<>> /\ \A f \in FactorsOf(eq) : Entry(f.s).pcs # <<>> /\ f.m = "c") =>
        LET RECURSIVE SumT(_)
            SumT(i) == IF i > Len(eq.t) THEN QI(0)
                       ELSE LET RECURSIVE Pr(_)
                                Pr(j) == IF j > Len(eq.t[i].f) THEN QI(1)
                                         ELSE QMul(QPow(PolyAt(Entry(eq.t[i].f[j].s), eq.t[i].f[j].x), eq.t[i].f[j].e), Pr(j + 1)) IN
                            QAdd(QMul(eq.t[i].c, Pr(1)), SumT(i + 1)) IN
        SumT(1) = eq.q

-----------------------------------------------------------------------------
(* 3. Anisotropy: exact reduced distances                                    *)
(*                                                                         *)
(* Angle codes: 0..3 = 0, 90, 180, 270 degrees, 4..7 = T, T+90, T+180,      *)
(* T+270 with cos T = 3/5, sin T = 4/5, 8..11 = -T, 180-T, 90-T, 270-T.      *)
(* An angle is given to the library in [0, 360[ (rep 0), as the same angle    *)
(* minus 360 degrees (rep 1: negative) or plus 360 degrees (rep 2).  The rotation is        *)
(* R = Rz(a1).Ry(a2).Rx(a3) (2-D: Rz(a1)); the k-th range is measured along  *)
(* the k-th column of R:  r^2 = sum_k ((R^T h)_k / range_k)^2.               *)
(* Ranges are half-integers m_k / 2.                                        *)

Tup(nd, G(_)) == IF nd = 1 THEN <<G(1)>> ELSE IF nd = 2 THEN <<G(1), G(2)>> ELSE <<G(1), G(2), G(3)>>
SumN(nd, G(_)) == IF nd = 1 THEN G(1) ELSE IF nd = 2 THEN G(1) + G(2) ELSE G(1) + G(2) + G(3)
CSD == << <<1, 0, 1>>, <<0, 1, 1>>, <<-1, 0, 1>>, <<0, -1, 1>>, <<3, 4, 5>>, <<-4, 3, 5>>, <<-3, -4, 5>>, <<4, -3, 5>>,
          <<3, -4, 5>>, <<-3, 4, 5>>, <<4, 3, 5>>, <<-4, -3, 5>> >>
Cn(a) == CSD[a + 1][1]
Sn(a) == CSD[a + 1][2]
Dn(a) == CSD[a + 1][3]
MatMul3(A, B) == Tup(3, LAMBDA i : Tup(3, LAMBDA j : A[i][1]*B[1][j] + A[i][2]*B[2][j] + A[i][3]*B[3][j]))
Rz3(a) == << <<Cn(a), -Sn(a), 0>>, <<Sn(a), Cn(a), 0>>, <<0, 0, Dn(a)>> >>
Ry3(a) == << <<Cn(a), 0, Sn(a)>>, <<0, Dn(a), 0>>, <<-Sn(a), 0, Cn(a)>> >>
Rx3(a) == << <<Dn(a), 0, 0>>, <<0, Cn(a), -Sn(a)>>, <<0, Sn(a), Cn(a)>> >>
RotOf(nd, ang) ==
  IF nd = 1 THEN [n |-> << <<1>> >>, d |-> 1]
  ELSE IF nd = 2 THEN [n |-> << <<Cn(ang[1]), -Sn(ang[1])>>, <<Sn(ang[1]), Cn(ang[1])>> >>, d |-> Dn(ang[1])]
  ELSE [n |-> MatMul3(MatMul3(Rz3(ang[1]), Ry3(ang[2])), Rx3(ang[3])), d |-> Dn(ang[1]) * Dn(ang[2]) * Dn(ang[3])]

\* numerators of R^T h (over R.d)
Local(nd, R, h) == Tup(nd, LAMBDA k : SumN(nd, LAMBDA i : R.n[i][k] * h[i]))
\* r^2 = N / D with D = (R.d m1 m2 m3)^2, N = sum_k (2 u_k prod_{j # k} m_j)^2
ProdOthers(nd, m, k) == IF nd = 1 THEN 1 ELSE IF nd = 2 THEN m[3 - k]
                        ELSE (IF k = 1 THEN m[2] * m[3] ELSE IF k = 2 THEN m[1] * m[3] ELSE m[1] * m[2])
ProdAll(nd, m) == IF nd = 1 THEN m[1] ELSE IF nd = 2 THEN m[1] * m[2] ELSE m[1] * m[2] * m[3]
R2Num(nd, R, m, h) == LET u == Local(nd, R, h) IN SumN(nd, LAMBDA k : (2 * u[k] * ProdOthers(nd, m, k)) * (2 * u[k] * ProdOthers(nd, m, k)))
R2Den(nd, R, m)    == (R.d * ProdAll(nd, m)) * (R.d * ProdAll(nd, m))
\* the same through the quadratic form h^T (R diag(4/m^2) R^T) h, evaluated without passing through R^T h
R2NumQF(nd, R, m, h) ==
  SumN(nd, LAMBDA i : SumN(nd, LAMBDA j :
     h[i] * h[j] * SumN(nd, LAMBDA k : 4 * R.n[i][k] * R.n[j][k] * ProdOthers(nd, m, k) * ProdOthers(nd, m, k))))

HVecs(nd, hmax) == IF nd = 1 THEN { <<a>> : a \in (-2 * hmax)..(2 * hmax) }
                   ELSE IF nd = 2 THEN { <<a, b>> : a, b \in (-hmax)..hmax }
                   ELSE { <<a, b, c>> : a, b, c \in (-hmax)..hmax }
\* a fixed order of the vectors (JSON wants sequences)
HSeq(nd, hmax) == LET w == 2 * hmax + 1 IN
                  IF nd = 1 THEN [t \in 1..(4 * hmax + 1) |-> <<t - 1 - 2 * hmax>>]
                  ELSE IF nd = 2 THEN [t \in 1..(w * w) |-> <<((t - 1) % w) - hmax, ((t - 1) \div w) - hmax>>]
                  ELSE [t \in 1..(w * w * w) |-> <<((t - 1) % w) - hmax, (((t - 1) \div w) % w) - hmax, ((t - 1) \div (w * w)) - hmax>>]

GeoCaseRep(nd, m, ang, hmax, rep) ==
  LET R  == RotOf(nd, ang)
      hs == HSeq(nd, hmax)
      D  == R2Den(nd, R, m) IN
  [k |-> "geo", d |-> nd, m |-> m, ang |-> ang, rep |-> rep, cs |-> [i \in DOMAIN ang |-> CSD[ang[i] + 1]], R |-> R, den |-> R.d,
   hs |-> [t \in DOMAIN hs |-> LET N == R2Num(nd, R, m, hs[t]) IN
             [h |-> hs[t], u |-> Local(nd, R, hs[t]), cmp |-> IF N < D THEN -1 ELSE IF N = D THEN 0 ELSE 1]],
   iso |-> IF \A k \in 1..nd : m[k] = m[1] THEN 1 ELSE 0]

GeoCase(nd, m, ang, hmax) == GeoCaseRep(nd, m, ang, hmax, [i \in DOMAIN ang |-> 0])

GeoOk(g) ==
  LET nd == g.d  R == g.R  D == R2Den(nd, R, g.m) IN
  /\ \A i, j \in 1..nd : SumN(nd, LAMBDA k : R.n[k][i] * R.n[k][j]) = (IF i = j THEN R.d * R.d ELSE 0)     \* R^T R = Id
  /\ \A i, j \in 1..nd : SumN(nd, LAMBDA k : R.n[i][k] * R.n[j][k]) = (IF i = j THEN R.d * R.d ELSE 0)
  /\ Cardinality({ g.hs[t].h : t \in DOMAIN g.hs }) = Len(g.hs)
  /\ \A i \in DOMAIN g.cs : g.cs[i][1] * g.cs[i][1] + g.cs[i][2] * g.cs[i][2] = g.cs[i][3] * g.cs[i][3] /\ g.rep[i] \in 0..2
  /\ \A t \in DOMAIN g.hs :
       LET h == g.hs[t].h  N == R2Num(nd, R, g.m, h) IN
       /\ N = R2NumQF(nd, R, g.m, h)                                            \* both expressions of the reduced distance agree
       /\ N = R2Num(nd, R, g.m, Tup(nd, LAMBDA k : -h[k]))                        \* symmetric in h
       /\ R2Num(nd, R, g.m, Tup(nd, LAMBDA k : 2 * h[k])) = 4 * N                 \* homogeneous of degree 2
       /\ (N = 0) = (\A k \in 1..nd : h[k] = 0)
       /\ g.iso = 1 => N * g.m[1] * g.m[1] = 4 * SumN(nd, LAMBDA k : h[k] * h[k]) * D      \* isotropic: |h|^2/a^2 whatever R
       /\ \E t2 \in DOMAIN g.hs : g.hs[t2].h = Tup(nd, LAMBDA k : -h[k])          \* -h is examined too

-----------------------------------------------------------------------------
(* 4. Point-set families and obligations of positive semi-definiteness        *)

\* radical inverse of i in base b with nb digits, times b^nb (an integer)
RECURSIVE RadInv(_, _, _)
RadInv(i, b, nb) == IF nb = 0 THEN 0 ELSE (i % b) * (b ^ (nb - 1)) + RadInv(i \div b, b, nb - 1)
Halton(i, k) == IF k = 1 THEN RadInv(i, 2, 10)                          \* / 1024
                ELSE IF k = 2 THEN (RadInv(i, 3, 6) * 1024) \div 729
                ELSE (RadInv(i, 5, 4) * 1024) \div 625
IdxOf(nd, n, r) == Tup(nd, LAMBDA k : (r \div (IF k = 1 THEN 1 ELSE IF k = 2 THEN n[1] ELSE n[1] * n[2])) % n[k])
NTot(nd, n) == IF nd = 1 THEN n[1] ELSE IF nd = 2 THEN n[1] * n[2] ELSE n[1] * n[2] * n[3]
Unit(nd, k) == Tup(nd, LAMBDA j : IF j = k THEN 1 ELSE 0)
VAdd(nd, a, b) == Tup(nd, LAMBDA k : a[k] + b[k])
VScal(nd, s, a) == Tup(nd, LAMBDA k : s * a[k])

\* sp = nominal spacing of the neighbours (the range classes are multiples of it)
PLattice(nd, n) == [fam |-> "lattice", d |-> nd, sp |-> 1, pts |-> [r \in 1..NTot(nd, n) |-> IdxOf(nd, n, r - 1)]]
PRotLattice(n) ==          \* the square lattice turned by the 3-4-5 angle (2-D), mesh 5
  [fam |-> "rotlattice", d |-> 2, sp |-> 5,
   pts |-> [r \in 1..(n * n) |-> LET i == (r - 1) % n  j == (r - 1) \div n IN <<3 * i - 4 * j, 4 * i + 3 * j>>]]
PClusters(nd, far) ==      \* two clusters of 2^d points with unit separations, 'far' apart
  LET c == PLattice(nd, Tup(nd, LAMBDA k : 2)).pts  nc == Len(c) IN
  [fam |-> "clusters", d |-> nd, sp |-> 1,
   pts |-> [r \in 1..(2 * nc) |-> IF r <= nc THEN c[r] ELSE VAdd(nd, c[r - nc], VScal(nd, far, Unit(nd, 1)))]]
PCollinear(nd, n) ==       \* points on a line that is not an axis
  LET v == Tup(nd, LAMBDA k : IF k = 1 THEN 1 ELSE 2) IN
  [fam |-> "collinear", d |-> nd, sp |-> 1, pts |-> [r \in 1..n |-> VScal(nd, r - 1, v)]]
PPairs(nd, n) ==           \* nearly coincident pairs: a coarse lattice of mesh 1000, every node doubled at distance 1
  LET c == PLattice(nd, n).pts  nc == Len(c) IN
  [fam |-> "pairs", d |-> nd, sp |-> 1000,
   pts |-> [r \in 1..(2 * nc) |-> IF r <= nc THEN VScal(nd, 1000, c[r])
                                  ELSE VAdd(nd, VScal(nd, 1000, c[r - nc]), Unit(nd, 1 + ((r - nc) % nd)))]]
PHalton(nd, n, sp) ==      \* random-looking fixed set: Halton points on a 1024 grid
  [fam |-> "halton", d |-> nd, sp |-> sp, pts |-> [r \in 1..n |-> Tup(nd, LAMBDA k : Halton(r, k))]]

PointSetOk(ps) ==
  /\ Cardinality(Range(ps.pts)) = Len(ps.pts)                                   \* distinct points
  /\ \A r \in DOMAIN ps.pts : Len(ps.pts[r]) = ps.d
  /\ ps.fam = "collinear" /\ ps.d >= 2 =>
        \A r \in DOMAIN ps.pts : ps.pts[r][1] * ps.pts[2][2] = ps.pts[r][2] * ps.pts[2][1]
  /\ ps.fam = "pairs" => \A r \in 1..(Len(ps.pts) \div 2) :
        SumN(ps.d, LAMBDA k : (ps.pts[r][k] - ps.pts[r + Len(ps.pts) \div 2][k]) ^ 2) = 1

\* range classes relative to the spacing: much smaller, comparable (several), much larger
RangeFactors(thorough) == IF thorough THEN {<<1, 4>>, QI(1), <<3, 2>>, QI(2), <<5, 2>>, QI(3), QI(4), QI(10), QI(40)}
                          ELSE {<<1, 4>>, <<3, 2>>, <<5, 2>>, QI(4), QI(10)}
\* anisotropy presets of the PSD runs: 0 isotropic; 1 ranges x (2, 1/2, 1) turned by the 3-4-5 angle
\* (about Oz, and about Oz then Oy in 3-D)
AnisoPresets == {0, 1}

\* the obligation: "psd" positive semi-definite; "cpsd" conditionally, on the increments filtering the
\* monomials of degree <= ord; "none" when the catalogue says the structure is not valid in that
\* dimension for that parameter (then a clearly negative eigenvalue is the expected evidence) or claims nothing
Obligation(s, p, d) ==
  LET e == Entry(s) IN
  IF e.space # "rn" THEN "na"
  ELSE IF d <= ValidUpTo(e, p) THEN (IF e.ord >= 0 THEN "cpsd" ELSE "psd")
  ELSE IF d >= InvalidFrom(e, p) THEN "invalid" ELSE "unclaimed"

PsdPlan(s, p, d, rf, an, psid) ==
  [k |-> "psd", s |-> s, p |-> p, d |-> d, rf |-> rf, an |-> an, ps |-> psid, ob |-> Obligation(s, p, d), ord |-> Entry(s).ord]

\* 2 x 2 sill matrices <<s11, s12, s22>>, positive semi-definite, rank-deficient ones included
Sills == { <<1, 0, 1>>, <<4, 2, 1>>, <<2, 1, 2>>, <<1, -1, 1>>, <<1, 0, 0>>, <<9, -6, 5>> }
SillOk(m) == m[1] >= 0 /\ m[3] >= 0 /\ m[1] * m[3] - m[2] * m[2] >= 0
\* models with several structures (all stationary and valid in every dimension <= 3, or spherical-like)
MixPairs == { <<"SPHERICAL", "EXPONENTIAL">>, <<"GAUSSIAN", "NUGGET">>, <<"CUBIC", "MATERN">>, <<"WENDLAND1", "CAUCHY">>,
              <<"EXPONENTIAL", "GAUSSIAN">>, <<"SPHERICAL", "SPHERICAL">>, <<"STABLE", "SINCARD">>, <<"PENTA", "NUGGET">>,
              <<"WENDLAND2", "GAMMA">>, <<"LINEAR", "NUGGET">> }
MixPlan(pair, nv, sl, d, rf, psid) ==
  [k |-> "mix", s |-> pair[1], s2 |-> pair[2], nv |-> nv, sl |-> sl, d |-> d, rf |-> rf, ps |-> psid,
   ob |-> IF \A i \in 1..2 : Obligation(pair[i], QI(1), d) \in {"psd", "cpsd"}
          THEN (IF \E i \in 1..2 : Entry(pair[i]).ord >= 0 THEN "cpsd" ELSE "psd") ELSE "unclaimed",
   ord |-> Max2(Entry(pair[1]).ord, Entry(pair[2]).ord)]

-----------------------------------------------------------------------------
(* 4 bis. What the code ADMITS as shape parameter.  Requests inside the       *)
(* admitted domain, at its ends, just outside (max + 1/2, 2 max), far outside *)
(* (1000 max) and negative, through every public route that sets the          *)
(* parameter.  Obligation: the request is refused (exception, no object) or   *)
(* the object reports a parameter of the admitted domain (the request itself, *)
(* a clipped value, the unchanged default) - and then it satisfies the        *)
(* obligations of the catalogue for the parameter it reports.                 *)

AdmitRequests(e) ==
  IF e.par = 0 \/ e.space # "rn" THEN {}
  ELSE { [k |-> "admit", s |-> e.name, r |-> p, cls |-> "inside", ord |-> e.ord] : p \in ParamGrid(e.name, FALSE) }
       \cup { [k |-> "admit", s |-> e.name, r |-> e.plo, cls |-> "end", ord |-> e.ord],
              [k |-> "admit", s |-> e.name, r |-> <<-1, 2>>, cls |-> "negative", ord |-> e.ord] }
       \cup (IF e.phi = Unb THEN {}
             ELSE { [k |-> "admit", s |-> e.name, r |-> e.phi, cls |-> "end", ord |-> e.ord],
                    [k |-> "admit", s |-> e.name, r |-> QAdd(e.phi, <<1, 2>>), cls |-> "outside", ord |-> e.ord],
                    [k |-> "admit", s |-> e.name, r |-> QAdd(e.phi, <<1, 100>>), cls |-> "outside", ord |-> e.ord],
                    [k |-> "admit", s |-> e.name, r |-> QMul(QI(2), e.phi), cls |-> "outside", ord |-> e.ord],
                    [k |-> "admit", s |-> e.name, r |-> QMul(QI(1000), e.phi), cls |-> "outside", ord |-> e.ord] })
AdmitRequestOk(a) == LET e == Entry(a.s) IN
  /\ IsQ(a.r) /\ e.par = 1
  /\ a.cls \in {"inside", "end"} => ParamAdmitted(e, a.r)
  /\ a.cls \in {"outside", "negative"} => ~ParamAdmitted(e, a.r)

\* an admission record: [s, out ("refused" / "set"), rn, rd (parameter reported by the object; rd = 0 when it is none
\* of the request, the ends of the domain, the default), cls (class of the smallest eigenvalue of the object on a
\* 1-D lattice, 0 when not measured)]
AdmitBad(v) ==
  IF v.out = "refused" THEN {}
  ELSE IF v.rd = 0 THEN {"reports-an-unexpected-parameter"}
  ELSE LET e == Entry(v.s)  p == Q(v.rn, v.rd) IN
       IF ~ParamAdmitted(e, p) THEN {"admits-a-parameter-outside-its-domain"}
       ELSE IF Obligation(v.s, p, 1) \in {"psd", "cpsd"} /\ v.cls = -1 THEN {"not-positive-semi-definite"} ELSE {}

-----------------------------------------------------------------------------
(* 5. Judgement of what the real code did (module JudgeCovStructures)         *)
(* Every record is integerised by the driver: digits of agreement, classes of  *)
(* the smallest eigenvalue (1: >= -1e-9.n.max|K| ; -1: < -1e-6.max|K| ; 0:      *)
(* between, inconclusive).                                                   *)

\* an offer record: [s, d, listed, consistent, built, pn, pd, admitted]: listed by CovFactory::getCovList for the
\* dimension; consistent = CovAniso::isConsistent with the shape parameter pn/pd set (-1 not examined);
\* admitted = the parameter is accepted; built = a Model holding the structure could be created
OfferBad(o) ==
  IF o.s \notin Names THEN {"unknown-structure"}
  ELSE LET e == Entry(o.s)  p == Q(o.pn, o.pd)
           offered == o.listed = 1 /\ o.consistent = 1 IN
       (IF e.space # "rn" /\ o.listed = 1 THEN {"listed-without-covariance-in-Rd"} ELSE {})
       \cup (IF e.space = "rn" /\ offered /\ (e.par = 0 \/ o.admitted = 1) /\ o.d >= InvalidFrom(e, p)
             THEN {"listed-in-a-dimension-where-invalid"} ELSE {})
       \cup (IF e.space = "rn" /\ ~offered /\ o.built = 1 /\ o.d >= InvalidFrom(e, p)
             THEN {"built-beyond-declared-dimension"} ELSE {})
       \cup (IF e.space = "rn" /\ e.par = 0 /\ o.listed # o.consistent THEN {"list-and-isConsistent-disagree"} ELSE {})

\* a verdict record of the PSD runs: [s, pn, pd, d, sym, cls] ; the obligation is recomputed here
PsdBad(v) ==
  LET ob == IF v.k = "mix" THEN v.ob ELSE Obligation(v.s, Q(v.pn, v.pd), v.d) IN
  (IF v.sym = 0 THEN {"not-symmetric"} ELSE {})
  \cup (IF ob \in {"psd", "cpsd"} /\ v.cls = -1 THEN {"not-positive-semi-definite"} ELSE {})
  \cup (IF ob # v.ob THEN {"obligation-mismatch"} ELSE {})
PsdConfirmsInvalid(v) == v.k = "psd" /\ Obligation(v.s, Q(v.pn, v.pd), v.d) = "invalid" /\ v.cls = -1

\* an equation / geometry verdict: [dg (digits reached), need]
NumBad(v) == IF v.dg < v.need THEN {"disagrees"} ELSE {}
=============================================================================
