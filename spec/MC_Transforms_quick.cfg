\* quick-tier bounds of the C18 scenario enumeration (tools/checks/c18.py generates the same text, with Seed = VERIF_SEED)
SPECIFICATION Spec
CONSTANTS
  Seed = 1
  Orders = {5, 12, 20, 40}
  RawSets = {"skew", "ties", "tsel"}
  MultiSets = {"m1", "m2", "m3"}
  RotElems = {1, 2, 3, 4, 5, 6, 7, 8, 9, 10, 11}
  RCoefs = {100, 90, 70, 50}
  TailSets = {"upsk", "losk", "bosk"}
  Kinds = {"AH", "AE", "PCA", "MAF", "NS", "ROT"}
  MaxLen = 3
CONSTRAINT Emit
INVARIANT SupportState TypeOK NormalFormsIrreducible RoundTripIsIdentity NoResidue RotationGroup SameIsSymmetricOnKeys
CHECK_DEADLOCK FALSE
