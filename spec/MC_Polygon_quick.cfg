\* manual run:  cd spec && JAVA_TOOL_OPTIONS=-Xss256m tlc -workers 4 -config MC_Polygon_quick.cfg MC_Polygon.tla
\* (the check tools/checks/c20.py generates its own configurations, see the bounds there)
SPECIFICATION Spec
CONSTANTS
  G = 3
  MaxV = 4
  MinEmit = 3
  EmitSel = TRUE
  Canon = FALSE
INVARIANT Inv_Agree Inv_Closed Inv_Ref Inv_Simple Inv_Affine
CHECK_DEADLOCK FALSE
